#!/usr/bin/env python3
"""Writes MANIFEST.json from the table below (kept here so the file is always schema-valid)."""
import json
import os

ROOT = os.path.dirname(os.path.dirname(os.path.abspath(__file__)))

CLAIMED = {
    "C19": dict(
        engine="E3-pure",
        technique="Coq proof (induction over argument vectors and strings; shell-lexer simulation lemmas) + differential correspondence of Debug/to_cmdline_lossy against the Gallina model evaluated by vm_compute + /bin/sh oracle",
        text="Theorems C19_render_roundtrip / C19_render_pipeline_roundtrip: for every non-empty vector of NUL-free Unicode strings (any length, any characters) the modelled rendering evaluates under a POSIX-shell word model to exactly that vector, reserved words in command position included; the model is tied to the code by comparing the real Debug output with the model inside Coq on generated vectors, and the real output is evaluated by /bin/sh with the program in command position.",
        note="Trusted: Coq kernel; Lib/Sh.v as a model of sh (validated against /bin/sh each run); puredrive/childstub; the K=V env prefix of to_cmdline_lossy is outside the property.",
        design="5/C19"),
    "C20": dict(
        engine="E3-pure",
        technique="Coq proof (induction over arguments with a backslash-run invariant; uniform in the doubled-quote rule) + source cut-out of the cfg(windows) functions compiled against a UTF-16 shim, compared with the Gallina model (vm_compute and extracted code)",
        text="Theorem C20_cmdline_roundtrip: for every vector of UTF-16 strings that assemble_cmdline accepts, parsing the produced line with the Microsoft argument rules (C runtime 2008+, CommandLineToArgvW and the older runtime: uniform in the rule parameter) returns exactly the vector; NUL is rejected iff present; n backslashes before a quote / at the end come back as n for every n.  The functions' source text is cut out of popen.rs at build time, compiled on Linux and compared with the model; its output is parsed back by both reference parsers.",
        note="Trusted: Coq kernel; Lib/MsParse.v encodes the documented parsing rules (no Windows runtime here; the documented example table is proved); build.rs cutter and UTF-16 shim; extraction for bulk cases (cross-checked against vm_compute).  The program-name rule is proved only for names without quote and backslash (C20_progname_roundtrip_partial).",
        design="5/C20"),
}

ALL = ["C%02d" % i for i in range(1, 21)]

def main():
    checks = []
    for pid in ALL:
        if pid not in CLAIMED:
            continue
        c = CLAIMED[pid]
        checks.append({
            "property_id": pid,
            "quick_cmd": "./check %s --tier quick" % pid,
            "thorough_cmd": "./check %s --tier thorough" % pid,
            "evidence_file": "/verif/evidence/%s.json" % pid,
            "replay_cmd_template": "./check %s --replay {path}" % pid,
            "engine": c["engine"],
            "level_claimed": {"category": "proof", "text": c["text"], "design_ref": "DESIGN.md section " + c["design"]},
            "level_note": c["note"],
            "technique": c["technique"],
        })
    na = [{"property_id": pid, "reason": "check not built yet in this round (planned at level proof, DESIGN.md section 5); not claimed until its check exists"}
          for pid in ALL if pid not in CLAIMED]
    m = {
        "version": 1,
        "setup_cmd": "./setup.sh",
        "hooks": {
            "guard": "--cfg subprocess_verif",
            "enable": "RUSTFLAGS=\"--cfg subprocess_verif\" (set by tools/common.py for every harness build)",
            "baseline_off_cmd": "cd /repo && cargo test --workspace --no-fail-fast --offline",
            "source_commits": [],
            "add_only": True,
        },
        "engines": [
            {"name": "E3-pure", "path": "harness/src/bin/puredrive.rs", "serves_properties": ["C19", "C20"],
             "kind_free_text": "pure differential: real function vs Gallina model evaluated by vm_compute"},
        ],
        "checks": checks,
        "not_applicable": na,
        "notes": "Machine-checked proof in Coq 8.16.1; see DESIGN.md.  fix: commits in /repo are listed in known_findings.txt.",
    }
    with open(os.path.join(ROOT, "MANIFEST.json"), "w") as f:
        json.dump(m, f, indent=1)
        f.write("\n")

if __name__ == "__main__":
    main()
