#!/usr/bin/env python3
"""Writes MANIFEST.json from the table below (kept here so the file is always schema-valid)."""
import json
import os

ROOT = os.path.dirname(os.path.dirname(os.path.abspath(__file__)))

CLAIMED = {
    "C19": dict(
        engine="E3-pure",
        technique="Coq proof (induction over argument vectors and strings; shell-lexer simulation lemmas) + differential correspondence of Debug/to_cmdline_lossy against the Gallina model evaluated by vm_compute + /bin/sh oracle",
        text="Theorems C19_render_roundtrip / C19_render_pipeline_roundtrip: for every non-empty vector of NUL-free Unicode strings (any length, any characters) the modelled rendering evaluates under a POSIX-shell word model to exactly that vector, reserved words in command position included; the model is tied to the code by comparing the real Debug output with the model inside Coq on generated vectors, and the real output is evaluated by /bin/sh with the program in command position.",
        note="Trusted: Coq kernel; Lib/Sh.v as a model of sh (validated against /bin/sh each run); puredrive/childstub; the K=V env prefix of to_cmdline_lossy is outside the property.",
        design="5/C19"),
    "C20": dict(
        engine="E3-pure",
        technique="Coq proof (induction over arguments with a backslash-run invariant; uniform in the doubled-quote rule) + source cut-out of the cfg(windows) functions compiled against a UTF-16 shim, compared with the Gallina model (vm_compute and extracted code)",
        text="Theorem C20_cmdline_roundtrip: for every vector of UTF-16 strings that assemble_cmdline accepts, parsing the produced line with the Microsoft argument rules (C runtime 2008+, CommandLineToArgvW and the older runtime: uniform in the rule parameter) returns exactly the vector; NUL is rejected iff present; n backslashes before a quote / at the end come back as n for every n.  The functions' source text is cut out of popen.rs at build time, compiled on Linux and compared with the model; its output is parsed back by both reference parsers.",
        note="Trusted: Coq kernel; Lib/MsParse.v encodes the documented parsing rules (no Windows runtime here; the documented example table is proved); build.rs cutter and UTF-16 shim; extraction for bulk cases (cross-checked against vm_compute).  The program-name rule is proved only for names without quote and backslash (C20_progname_roundtrip_partial).",
        design="5/C20"),
    "C01": dict(
        engine="E1-kernel-in-the-loop",
        technique="Coq proof: reachability invariant of the closed system (library machine || scripted child || pipe kernel) by induction over steps, a natural-number measure that every step of either party decreases, and a progress theorem; tied to the code by running the real Communicator against the extracted kernel model call by call; plus capture/communicate of real commands and pipelines (producer | consumer that leaves early, under-read input, alternating outputs above the pipe capacity) under a watchdog",
        text="Theorems C01_*: for every subset of piped streams, all pipe capacities >= PIPE_BUF, every finite child program (partial reads, writes to either stream, closes, sleeps, exit), every input and every interleaving and short-I/O choice: the invariant holds, every step of parent or child strictly decreases the measure mu (so every schedule is finite, no fairness needed), and a state with the parent inside the call always has an enabled step (never blocked on one pipe while the child is blocked on another); after the child is gone the parent alone runs to its return; a stream at EOF is never polled or read again.  The proof needs WRITE_SIZE <= PIPE_BUF, which is re-derived from the source on every run. Windows (thread-based) variant, Lib/WinComm.v: every step of helper threads, receiving thread and child decreases a measure (a read() ends after at most wmu steps under every schedule) and while a read() is in progress some party other than the clock can always move (C01_win_*).",
        note="Trusted: Coq kernel; K (Kernel/CommK.v) models Linux pipes/poll (POLLOUT implies an atomic write of <= PIPE_BUF bytes completes; POLLHUP/POLLERR rules), validated by E1 not proved; simdrive interposers; extraction + spsim glue.  K's assumption that a pipe's ends are held only by the two parties (no third process keeps a read end open) is C08's theorem about the spawn path; C01's check exercises it end to end with real pipelines whose consumer leaves early.  Exec::capture / Pipeline::capture reach the same loop through Popen::communicate_start (real-process part of the check). The cfg(windows) `mod raw` is cut out of /repo's source and run on Linux on real pipes (harness/windrive); its result sequences must be among those Kernel/WinSim.v enumerates for the model (order of rendezvous is the only freedom left by the driver).  C01_win_never_stuck holds since the repair of F17.",
        design="5/C01"),
    "C02": dict(
        engine="E1-kernel-in-the-loop",
        technique="Coq proof: ghost-state invariant (returned ++ in-flight ++ in-pipe = written, per stream; got ++ in-pipe ++ unsent = input) preserved by every step, with short reads/writes as universally quantified kernel choices; kernel-in-the-loop correspondence with position-tagged bytes",
        text="Theorems C02_*: at every reachable state, also under limits and timeouts, nothing is lost, duplicated, reordered or moved between streams; an unlimited Ok read returned exactly what the child wrote with every captured stream at EOF, stdin closed and the whole input delivered (a child reading to EOF got exactly the input); Option-ness mirrors the piped streams; the call right after the write that exhausts the input is close(stdin), and whenever poll reports stdin writable with input pending the next call is the write of the next chunk whatever the output streams report (input and EOF are not withheld while output is produced). Windows thread variant: C02_win_bytes_exact / C02_win_optionness -- per stream, what earlier reads returned ++ the current read ++ the parked excess ++ the chunk a helper holds ++ the pipe = what the child wrote, at every reachable state of every interleaving.",
        note="Trusted: as C01.  The text-returning variants are compared with String::from_utf8_lossy of the model's byte result by the harness (not a theorem). Thread variant tied as in C01.",
        design="5/C02"),
    "C03": dict(
        engine="E1-kernel-in-the-loop",
        technique="Coq proof: invariant total <= limit and the byte-exactness invariant over arbitrary histories of read() calls (GStart choices with arbitrary limits); kernel-in-the-loop correspondence with limit sequences",
        text="Theorems C03_*: for every limit, at every instant stdout+stderr bytes of the call <= limit; reads with arbitrarily changing limits return consecutive non-overlapping pieces whose concatenation plus the pipe content is what the child wrote (nothing consumed beyond the limit, undelivered input still queued once); the size handed to read() never exceeds the allowance; an all-empty Ok result with limit >= 1 means stdin done and every captured stream at EOF. Windows thread variant: C03_win_limit_respected (n >= 1).",
        note="Trusted: as C01. Thread variant tied as in C01.  With n = 0 (outside the property) the Windows grow_result drops the chunk it was handed: recorded as an observation in DESIGN.md 10.3.",
        design="5/C03"),
    "C04": dict(
        engine="E1-kernel-in-the-loop",
        technique="Coq proof (invariants over steps of the closed system: no timeout without a limit; range of the poll argument; byte invariant across timed-out calls; a time invariant relating the deadline, the instant each call was issued and K's clock, preserved by every step, which gives: TimedOut only when less than 1 ms is missing to the deadline) + kernel-in-the-loop correspondence under a virtual clock for the lateness bound",
        text="Theorems C04_*: with no time limit a timeout is never reported, for every child and schedule (holds only since the fix of F1); with a limit, in the closed system where every call takes an arbitrary duration and a poll that finds nothing ready returns no earlier than its timeout, TimedOut is returned only when less than one millisecond is missing to the deadline = first clock reading of the call + limit (C04_timeout_truthful, C04_deadline_is_start_plus_limit); the poll() argument is within 0..i32::MAX ms for every duration; across any history of timed-out and successful reads nothing is lost or repeated and the unsent input stays queued exactly once.  PARTIAL: 'returns no later than t plus one bounded I/O step' is a monitor under the virtual clock (E1), not a theorem. Windows thread variant: C04_win_no_timeout_without_deadline. A failing system call -- a poll interrupted by a signal handler of the caller (EINTR) included -- ends the read with that error at once (C04_syscall_error_ends_read): never a timeout, never another wait with the old timeout.",
        note="Trusted: as C01; wall-clock meaning of the virtual clock rests on the OS honouring poll timeouts. Thread variant tied as in C01.",
        design="5/C04"),
    "C05": dict(
        engine="E2-logged-real-spawns",
        technique="Coq: exhaustive evaluation (vm_compute in the kernel, lifted by forallb_forall) of a model of Popen::create with explicit Rust ownership on a descriptor-table kernel model with tagged-atom descriptors, over all 536 listed configurations; tied to the code by comparing the logged libc call sequence of every real spawn (parent and child) with the model's",
        text="Theorems C05_*: for all 6x6x7 redirection combinations (incl. one file shared by several streams, merge onto inherited/piped/file-backed streams) x detached, and all option subsets: the child's 0,1,2 refer to exactly the requested open file, the Popen has a handle iff piped, invalid combinations are refused with a logic error before any fork with nothing left open; under every injected failure the parent's own 0,1,2 are never closed or altered and the cached standard-stream handles keep >= 2 references.  Universal in the real descriptor numbers by the atom abstraction; every real run's descriptor numbers are mapped to atoms and the call sequences compared.",
        note="Trusted: Coq kernel; the atom abstraction (fresh descriptors distinct from open ones, 0,1,2 open, caller files >= 3) and the drop order written into Lib/Spawn.v are modelling, validated call by call against real runs; realdrive interposers; childstub self-report.  Spawns from several threads: see C08.",
        design="5/C05"),
    "C07": dict(
        engine="E2-logged-real-spawns",
        technique="Coq: exhaustive evaluation of the launch model over every configuration x every reachable injection point x exec success/failure (completeness of the injection list is itself a theorem), plus the errno codec round trip by lia; real spawns with the same faults injected through interposed libc calls",
        text="Theorems C07_*: Ok iff the image started; Ok only after EOF on the status pipe; after any failure (k-th pipe, k-th fcntl, fork, child dup2/chdir/signal/setuid/setgid/setpgid/exec) no descriptor of the attempt remains and a forked child has been reaped, detached or not; the error is that of the failing step; the 4-byte errno codec round-trips for every 32-bit value.  Real Popen::create is run with each fault injected; call sequences, result, descriptor table before/after and wait4(-1) are compared / checked.  The same clause is also exercised where the process that cannot be created is the k-th command of a pipeline (every terminator): no zombie or running child of the attempt afterwards, the process forked for the failing command never, detached or not.  Besides injected errnos, the failure causes the operating system really produces are provoked (working directory that is a file / device / missing / below a file / a symlink loop / over-long; program missing / not executable / a directory / empty / garbage / below a file) and their errno is required.",
        note="Trusted: as C05; one representative errno per injection point in the Coq sweep (the model never inspects the value; the real runs use several).",
        design="5/C07"),
    "C08": dict(
        engine="E2-logged-real-spawns",
        technique="Coq: exhaustive evaluation of the child's descriptor table at exec and of the holder counts of every pipe, with earlier Popens' close-on-exec ends present in the parent; children's real descriptor tables self-reported",
        text="Theorems C08_*: at exec the child holds only 0,1,2 and descriptors the application itself made inheritable -- no parent-side end, no status-pipe end, no end of an earlier child's pipe -- under every injected failure; every library descriptor left in the parent is close-on-exec (so the next spawn starts from the same invariant: histories on one thread); each pipe has exactly one parent-side holder, so EOF propagates at once.  PARTIAL: concurrent spawns from several threads are not modelled (known finding F9).",
        note="Trusted: as C05.  PARTIAL with respect to the statement's 'concurrently with spawns on other threads': the theorems cover launches that do not overlap a launch on another thread (every swept configuration has c_inflight = false); with an overlapping launch the predicate is proved to FAIL (C08_F9_inflight_ends_leak) and the real code fails the same way under a fixed two-thread schedule -- known finding F9 (known_findings.txt), reported as KNOWN-FINDING on every run.  Pipelines: the children's tables are checked on real pipelines (incl. the stderr capture pipe, fixed F8), the model sweep is for single launches.",
        design="5/C08"),
    "C09": dict(
        engine="E1-kernel-in-the-loop",
        technique="Coq proof (invariants by induction over executions of the Popen state machine on a process model; finite sweep over all exit codes and signals) + kernel-in-the-loop correspondence: the real Popen methods run on a virtual process and clock served by the extracted model",
        text="Theorems C09_*: every exit code 0..255 and signal 1..126 decodes truthfully; a reported status is the decoding of the raw status of a zombie that the same operation reaped; while the child never exits poll/wait_timeout report None and wait does not return; once a status is known every later operation history returns it, pid() is absent and NO system call is made; a child reaped elsewhere yields Undetermined and the call returns; with job control (Kernel/JobCtl.v) the library's calls are served exactly as by the plain kernel, a status handed to one of them is that of a terminated child which that call reaps, and a status for a child that is alive afterwards goes only to a waitpid that passes WUNTRACED, which the library model cannot issue (a stopped child is never taken for a finished one); a blocking waitpid interrupted by a signal handler of the caller (EINTR) is reported as that error and leaves the handle Running, only ECHILD means reaped elsewhere.  The machine is tied to the code by running the real methods against the extracted kernel model call by call (waitpid/kill/clock/sleep interposed) and comparing every call and return value with the machine's.",
        note="Trusted: Coq kernel; K's process/wait semantics (PopenSM.pworld) model Linux, validated not proved; simdrive interposers; spsim glue; the libc crate's WIF* bit definitions are modelled in Lib/Status.v and tied to real wait statuses: real children exiting with codes 0..255 (17 in the quick tier) and dying of every fatal signal are waited for by join()/capture(), the reported status is compared with the cause and with Lib/Status.v applied to the raw status logged at waitpid, whose options must be none or WNOHANG.  Job-control stops are in the kernel model (extracted), a stopped child keeps its scheduled exit instant (simplification).",
        design="5/C09"),
    "C10": dict(
        engine="E1-kernel-in-the-loop",
        technique="Coq proof (case analysis of the state machine, induction over operation histories) + kernel-in-the-loop correspondence with an interposed kill() log",
        text="Theorems C10_*: on a Running handle a signalling call issues exactly one kill with exactly the requested signal (for every signal number); no other operation ever sends a signal; after termination was observed (any status, Undetermined included) or after our own waitpid reaped the child, every later history issues no system call at all and signalling calls return success.",
        note="Trusted: as C09.  A kill that hits a pid reaped by foreign code before any query observed it cannot be prevented by the library and is outside the property's statement.  Lib/PopenSM.v abstracts waitpid's options to {0, WNOHANG}: the interposer forwards every other option bit and any such bit breaks the tie; Kernel/JobCtl.v (extracted into spsim) says what such a call observes (a stop report for WUNTRACED), theorem C10_stop_not_observed_by_library says the library's own calls never see one, and a monitor reports a signalling call that sent nothing to a child that is alive and was never reaped.  Real children started with every setpgid / detached combination are signalled (terminate, kill, send_signal of several numbers, interleaved with poll / wait) and the logged kill(2) calls must be exactly one per call with the child's own positive pid and the requested signal, none after termination was observed.",
        design="5/C10"),
    "C11": dict(
        engine="E1-kernel-in-the-loop",
        technique="Coq proof (loop invariants over the wait_timeout machine under an adversarial clock: arbitrary call durations and oversleeps; potential-function bound on status checks) + kernel-in-the-loop correspondence under a virtual clock",
        text="Theorems C11_*: poll issues at most clock/waitpid(WNOHANG)/clock, no sleep, no error; wait_timeout(d) says 'still running' no earlier than d and no later than d + 4D + O (D, O bounds on call duration and oversleep), reports an exit at any instant te within max(te,start) + 100 ms + 4D + O with the true status, returns at once when the status is known, sleeps a positive time between status checks, and makes at most 8 + ceil(d/100ms) status checks -- for every d and exit time.  The real wait_timeout/poll run against the virtual clock of the extracted model; sleep arguments, call counts and return instants are compared.",
        note="Trusted: as C09; wall-clock meaning of the virtual clock rests on the OS honouring sleeps (std::thread::sleep sleeps at least the request).  Waits of days/weeks on a live child are covered by the theorem only (22 million iterations are not executed).",
        design="5/C11"),
    "C06": dict(
        engine="E2-logged-real-spawns",
        technique="Coq proof (structural: prepare is the function from a request to the execve arguments; environment de-duplication proved equal to 'keep the last binding of each name' by induction, getenv on the block = last binding; NUL refusal by case analysis) + real launches of a self-reporting stub with the logged chdir/execve arguments judged by the extracted model (cross-checked by vm_compute) + hook differential of format_env",
        text="Theorems C06_*: for every argument vector, executable, environment list, cwd over arbitrary byte strings (unbounded lengths and counts): what reaches execve is the vector byte for byte (argv[0] stays the program name under an executable override), the block is exactly one name=value entry per distinct name carrying its last value (getenv on it = last binding; nothing else), None means inherit, cwd as given; a NUL in any argument, the executable, any name, any surviving value or the cwd is refused with EINVAL and issues no exec, and a NUL-free request is never refused; in the launch model the refusal precedes the fork, and exactly the requested chdir/setgid/setuid/setpgid are applied, the directory entered before the identity is given up (C06_cwd_entered_with_parent_identity) and the group changed before the user; the Windows block builder is proved case-insensitive last-wins, double-NUL terminated.",
        note="Trusted: Coq kernel; extraction (ExtrOcamlBasic only) cross-checked by vm_compute on small cases; realdrive interposers and the stub's self-report; that the kernel passes execve's vectors to the image unchanged (cross-checked).  A NUL inside a value that a later duplicate name shadows is dropped with its entry by the code and is therefore not refused: the theorem says 'surviving value', the generators do not plant NUL in shadowed values.  setuid/setgid to other users needs the check to run as root (it does here); otherwise only the own ids are used.",
        design="5/C06"),
    "C12": dict(
        engine="E2-logged-real-spawns",
        technique="Coq proof (a handle's drop is a list of closes and blocking waits; a child exits by an inductive predicate over what it is blocked on; chains of releases by induction over the pipeline length) + real handles of scripted children dropped under a watchdog, with the logged close/waitpid order (which pipe ends are still held at each blocking wait) compared with the extracted model",
        text="Theorems C12_*: every non-detached handle (Popen, join, the stream adapters, pipeline vectors, the failed-start path) contains a wait for each command it started; a detached one contains none; for every pipeline length, dropping the stdout/stderr reader completes when the commands are exiting programs, endless writers or filters, and dropping the stdin writer completes when they are exiting programs, read-to-EOF programs or filters -- because the adapter's own pipe end is closed before the first wait (the pre-repair order is shown to deadlock in the same world).",
        note="Trusted: as C06 for the harness; the child classes (KExit/KReadEOF/KWriter/KFilter: blocked only on this handle's own pipes) are a model of process behaviour exercised by scripted stubs, not a theorem about arbitrary programs.  capture()'s internal closes are the communicate loop's (C01/C02) and are not re-modelled here; its outcome (everything reaped) is monitored.",
        design="5/C12"),
    "C13": dict(
        engine="E2-logged-real-spawns",
        technique="Coq proof (structural induction over composition expressions; induction over the spawn loop for the wiring; induction over the stage list for the data flow) + real pipelines of tagging stages in every composition shape, the children's descriptor tables compared by inode with the extracted model's wiring, outputs / stderr lines / statuses monitored",
        text="Theorems C13_*: however nested (a|b, p|e, p|q at every split, from_exec_iter), the stage list is the commands in reading order (>= 2); for every number n of plain stages Pipeline::popen gives stage 0 the pipeline's stdin, stage n-1 the pipeline's stdout, connects stage i's stdout to a fresh pipe whose read end is stage i+1's stdin, and leaves argv and stderr of every command its own; with stderr_to(f) every command's stderr is the one file f (a command with its own stderr setting makes the call panic, never a silent override), with capture/communicate every stderr is the capture pipe and the last stdout is piped; evaluating the stages as functions along that wiring yields their composition in order applied to the pipeline's input; join and capture report the status of command n-1 (an error, never a status, when some command cannot be started), and join's actions contain a wait for every command.",
        note="Trusted: as C06.  Stderr 'no line lost' is, in the model, 'all stages write the same open file'; that concurrent appends of short lines to one open file description do not overwrite each other is the kernel's (monitored on the real runs: every stage's two lines must arrive).  The status index of pjoin/pcapture is tied to the real return value per scenario (distinct exit codes per stage).  Pipeline|Pipeline keeps only the right operand's stdout setting (modelled).",
        design="5/C13"),
    "C14": dict(
        engine="E2-logged-real-spawns",
        technique="Coq proof (induction over the spawn loop: exactly k launches before the error; the error path as a DropOrder handle whose waits complete by the upstream / downstream release chains, for every k) + real pipelines whose k-th command does not exist, every k, terminator, stdin kind, detached or not, under a watchdog, with fork count, descriptor table, zombies and the logged close/waitpid order compared with the model",
        text="Theorems C14_*: when the k-th command cannot be started the loop ends with that error after exactly k launches (none later); the error path closes every pipe end held for the started commands before waiting, so for every k the waits complete for commands that end at end-of-file (piped stdin) or when their reader is gone; unless detached each started command is waited for, detached ones never.",
        note="Trusted: as C12.  Holds only since the repairs of F7 (hang with a piped stdin) and F15 (communicate() left zombies); both are fixed entries in known_findings.txt.  A first command reading an inherited terminal is outside the model (not one of the attempt's own pipes).",
        design="5/C14"),
    "C15": dict(
        engine="E2-logged-real-spawns",
        technique="Coq proof (induction over the PATH string for the tokenizer, over the candidate list for the exec loop, file system as a universally quantified oracle) + real launches in generated directory layouts (executable / non-executable / directory / garbage / missing / over-long candidates) with the logged execve path sequence and outcome judged by the extracted model + hook differential of split_path",
        text="Theorems C15_*: split_path = the non-empty pieces between colons, in order; a slash-free name is tried as <entry>/<name> for exactly those entries in PATH order, a name with a slash is tried as given and alone; for every file-system oracle the execve calls are the candidates up to and including the first startable one, which is the image that runs, and when none is startable every candidate was tried, an error comes back (ENOENT when there was no candidate, otherwise the last candidate's errno) and no image runs; an explicitly named executable goes through the same function; the environment requested for the child (a PATH entry of its own included) has no influence on the candidates or the outcome (C15_lookup_ignores_child_env).",
        note="Trusted: as C06; the file-system oracle of the harness is validated against the kernel's errno for every path tried.  Unreadable directories cannot be produced when the check runs as root and are not exercised.",
        design="5/C15"),
    "C16": dict(
        engine="E2-logged-real-spawns",
        technique="Coq proof (induction over call sequences of a functional model of the builder, one function per method, panic = None; environment edits proved to refine map edits via last_binding; two-handle state machine for clone) + generated builder programs run on the real Exec under catch_unwind with the logged execve/chdir arguments, child descriptor kinds, Popen fields, delivered input and captured output compared with the extracted model (cross-checked by vm_compute)",
        text="Theorems C16_*: for every call sequence over arbitrary byte strings: arguments are the added ones in call order after the command; for every variable name the final environment list's binding is the fold of the calls as map edits over the inherited environment (set: last wins, remove: absent unless set again, clear, extend), and that binding is what getenv sees in the child (C06); no environment call => inherit; Exec::shell(s) launches [sh, -c, s] for every s; stdout/stderr/stdin panic exactly when the stream already has a setting (Pipe over Pipe excepted; stdin Merge always), otherwise take the fresh setting; settings and input data survive every later call; input data makes popen/join/stream_* refuse loudly and is delivered on a pipe by capture/communicate; the two handles of a clone are independent and the clone equals the original at the moment of cloning; the last cwd() wins and without one the directory is untouched, detached is set exactly by a detached() call, and every terminator launches with the description's argv, directory and environment (communicate() alone forces detached).",
        note="Trusted: as C06; Lib/Builder.v is hand-written.  Found while tying the model: capture()/communicate() on a piped stdin without input data start the process and then panic ('must provide input to redirected stdin'); this is loud, not silent, and is modelled (l_panics_after), not reported as a finding.  The snapshot of the inherited environment is taken at the first environment call; the model uses one base for the whole program.",
        design="5/C16"),
    "C17": dict(
        engine="E2-logged-real-spawns",
        technique="Coq proof (arithmetic on the (len, capacity) model of Vec<u8>: the buffer reserved before the fork fits every candidate, threaded through the whole loop by induction) + allocator probe armed in the forked child of real launches (global allocator of the harness binary) + hook differential of the reserved capacity and the longest assembled candidate",
        text="Theorems C17_*: for every command and PATH, every <dir>/<cmd>\\0 the loop assembles fits the capacity reserved before the fork, so no extend/push of the whole loop reallocates (the buffer is threaded from one candidate to the next).  That the remaining child-side calls do not allocate is not a theorem: it is measured on every E2 launch by the allocator probe (command lengths, PATH shapes, cwd lengths around 384 and ~3.8 KB, argument/environment sizes, all stream configurations, successful, failing and fault-injected exec).",
        note="Partial by nature: the theorem covers the one growing object of the child branch; the absence of allocation in dup2/chdir/sigmask/signal/set*id/_exit wrappers and in the error report is an observation of the probe, not a proof.  Deallocations in the child (dropping the prepared vectors before _exit, an Rc<File>) are reported in the evidence and not counted: the property speaks of allocation.",
        design="5/C17"),
    "C18": dict(
        engine="E2-logged-real-spawns",
        technique="Coq: exhaustive evaluation of the child's effects list (mask emptied, SIGPIPE default, then identity calls, then exec) over all configurations; real spawns under 64+ random signal masks and both SIGPIPE dispositions with the child's inherited state captured before the Rust runtime starts",
        text="Theorem C18_child_signal_state: in every started child the signal mask is emptied and SIGPIPE reset to default before any identity change and before exec, for all configurations; the state at exec therefore does not depend on the spawning thread's mask or the parent's disposition.  Real children report SigBlk and the SIGPIPE handler they inherited (read in an ELF init function, before Rust's runtime ignores SIGPIPE).",
        note="Trusted: as C05; signals are two abstract effects in the model, their OS meaning is checked on the real kernel by the children's self-reports.",
        design="5/C18"),
}

ALL = ["C%02d" % i for i in range(1, 21)]

def main():
    checks = []
    for pid in ALL:
        if pid not in CLAIMED:
            continue
        c = CLAIMED[pid]
        checks.append({
            "property_id": pid,
            "quick_cmd": "./check %s --tier quick" % pid,
            "thorough_cmd": "./check %s --tier thorough" % pid,
            "evidence_file": "/verif/evidence/%s.json" % pid,
            "replay_cmd_template": "./check %s --replay {path}" % pid,
            "engine": c["engine"],
            "level_claimed": {"category": "proof", "text": c["text"], "design_ref": "DESIGN.md section " + c["design"]},
            "level_note": c["note"],
            "technique": c["technique"],
        })
    na = [{"property_id": pid, "reason": "check not built yet in this round (planned at level proof, DESIGN.md section 5); not claimed until its check exists"}
          for pid in ALL if pid not in CLAIMED]
    m = {
        "version": 1,
        "setup_cmd": "./setup.sh",
        "hooks": {
            "guard": "--cfg subprocess_verif",
            "enable": "RUSTFLAGS=\"--cfg subprocess_verif\" (set by tools/common.py for every harness build)",
            "baseline_off_cmd": "cd /repo && cargo test --workspace --no-fail-fast --offline",
            "source_commits": ["efd480d"],
            "add_only": True,
        },
        "engines": [
            {"name": "E2-logged-real-spawns", "path": "harness/src/bin/realdrive.rs + harness/src/bin/childstub.rs + tools/e2.py", "serves_properties": ["C05", "C06", "C07", "C08", "C12", "C13", "C14", "C15", "C16", "C17", "C18"],
             "kind_free_text": "real spawns on the real kernel; every relevant libc call of parent and forked child is logged (and failed on request) by interposers, allocations in the child are logged; call sequences are compared with the Gallina model"},
            {"name": "E1-kernel-in-the-loop", "path": "harness/src/bin/simdrive.rs + ocaml/src/spsim.ml", "serves_properties": ["C01", "C02", "C03", "C04", "C09", "C10", "C11"],
             "kind_free_text": "the real library runs on fake descriptors, a virtual clock and a virtual child served live by the extracted Coq kernel model; the library model is stepped in lockstep and compared call by call"},
            {"name": "E3w-thread-communicator", "path": "harness/build.rs (cut-out of the cfg(windows) mod raw) + harness/src/bin/windrive.rs + tools/wincomm.py", "serves_properties": ["C01", "C02", "C03", "C04"],
             "kind_free_text": "the thread-based communicator of the Windows build, compiled from /repo's source text on Linux and run on real pipes with the driver playing the child between reads; the sequence of read() results must be one of those the model allows (Kernel/WinSim.v enumerates every rendezvous order)"},
            {"name": "E3-pure", "path": "harness/src/bin/puredrive.rs", "serves_properties": ["C06", "C15", "C17", "C19", "C20"],
             "kind_free_text": "pure differential: real function vs Gallina model evaluated by vm_compute"},
        ],
        "checks": checks,
        "not_applicable": na,
        "notes": "Machine-checked proof in Coq 8.16.1; see DESIGN.md.  fix: commits in /repo are listed in known_findings.txt.",
    }
    with open(os.path.join(ROOT, "MANIFEST.json"), "w") as f:
        json.dump(m, f, indent=1)
        f.write("\n")

if __name__ == "__main__":
    main()
