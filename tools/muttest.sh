#!/bin/sh
# usage: muttest.sh <file under /repo> <python-regex-free old text> <new text> <Cxx>... : one textual mutant, checks, undo
F=$1; OLD=$2; NEW=$3; shift 3
cd /repo && python3 - "$F" "$OLD" "$NEW" <<'PY' || exit 2
import sys
f,old,new=sys.argv[1:4]
s=open(f).read()
if s.count(old)!=1:
    print("pattern occurs %d times"%s.count(old)); sys.exit(2)
open(f,'w').write(s.replace(old,new))
PY
(cd /repo && timeout 600 cargo test --offline >/dev/null 2>&1; echo "cargo test rc=$?")
for P in "$@"; do
  cd /verif && timeout 1500 ./check $P > /verif/.build/mut_$P.out 2>&1; rc=$?
  echo "check $P rc=$rc"; grep -E "^VIOLATION|violation:|TIE BROKEN|PROOF OBL" /verif/.build/mut_$P.out | head -4 | cut -c1-400
done
cd /repo && git checkout -- . && cd /verif && python3 tools/params.py >/dev/null
