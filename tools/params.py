#!/usr/bin/env python3
"""Constants translator: regenerates coq/theories/Params.v from /repo/src on every run.

Only *constants* are translated (numbers, character sets, the shell argv);
everything that decides something is hand-modelled and tied by the
correspondence engines.  If a constant cannot be located the translator raises
ParamError: the caller treats that as a broken tie (DESIGN.md section 3.4) and
never keeps an old value silently.
"""
import os
import re
import sys

REPO = os.environ.get("VERIF_REPO", "/repo")
OUT = os.path.join(os.path.dirname(os.path.dirname(os.path.abspath(__file__))),
                   "coq", "theories", "Params.v")


class ParamError(Exception):
    pass


def read(rel):
    with open(os.path.join(REPO, rel), encoding="utf-8") as f:
        return f.read()


def body_of(src, header_re):
    """Return the text of the brace-delimited block following header_re."""
    m = re.search(header_re, src)
    if not m:
        raise ParamError("cannot locate %r" % header_re)
    i = m.end() - 1
    if src[i] != "{":
        raise ParamError("header regex must end at the opening brace: %r" % header_re)
    depth = 0
    j = i
    in_str = None
    while j < len(src):
        c = src[j]
        if in_str:
            if c == "\\":
                j += 2
                continue
            if c == in_str:
                in_str = None
        else:
            if c == '"':
                in_str = '"'
            elif c == "'" and re.match(r"'(\\.|[^\\'])'", src[j:j + 4]):
                j += len(re.match(r"'(\\.|[^\\'])'", src[j:j + 4]).group(0))
                continue
            elif c == "/" and src[j:j + 2] == "//":
                j = src.index("\n", j)
                continue
            elif c == "{":
                depth += 1
            elif c == "}":
                depth -= 1
                if depth == 0:
                    return src[i:j + 1]
        j += 1
    raise ParamError("unbalanced block after %r" % header_re)


def char_lit(tok):
    """Rust char literal text (without quotes) -> code point."""
    esc = {"n": 10, "t": 9, "r": 13, "0": 0, "\\": 92, "'": 39, '"': 34}
    if tok.startswith("\\x"):
        return int(tok[2:], 16)
    if tok.startswith("\\u{"):
        return int(tok[3:-1], 16)
    if tok.startswith("\\"):
        return esc[tok[1]]
    if len(tok) != 1:
        raise ParamError("bad char literal %r" % tok)
    return ord(tok)


CHAR_RE = r"'((?:\\x[0-9a-fA-F]{2}|\\u\{[0-9a-fA-F]+\}|\\.|[^\\']))'"


def extract():
    p = {}
    builder = read("src/builder.rs")
    comm = read("src/communicate.rs")
    popen = read("src/popen.rs")
    posix = read("src/posix.rs")

    # --- C19: nice_char set of display_escape ---------------------------------
    nice = body_of(builder, r"fn\s+nice_char\s*\(c:\s*char\)\s*->\s*bool\s*\{")
    arms_true = []
    alnum = False
    for line in nice.splitlines():
        line = line.strip()
        if "=>" not in line:
            continue
        lhs, rhs = line.split("=>", 1)
        rhs = rhs.strip().rstrip(",")
        if rhs == "true":
            if "is_ascii_alphanumeric" in lhs:
                alnum = True
            elif re.search(r"\bif\b", lhs):
                raise ParamError("unrecognised guard in nice_char: %r" % line)
            else:
                cs = re.findall(CHAR_RE, lhs)
                if not cs:
                    raise ParamError("unrecognised arm in nice_char: %r" % line)
                arms_true += [char_lit(c) for c in cs]
        elif rhs == "false":
            if lhs.strip() != "_":
                raise ParamError("unrecognised false arm in nice_char: %r" % line)
        else:
            raise ParamError("unrecognised arm in nice_char: %r" % line)
    p["nice_punct"] = sorted(set(arms_true))
    p["nice_alnum"] = alnum

    # --- C19: reserved words quoted in command position -----------------------
    dec = body_of(builder, r"fn\s+display_escape_command\(s:\s*&str\)\s*->\s*Cow<'_,\s*str>\s*\{")
    mr = re.search(r"const\s+RESERVED:\s*\[&str;\s*[0-9]+\]\s*=\s*\[(.*?)\];", dec, re.S)
    if not mr or "RESERVED.contains(&s)" not in dec:
        raise ParamError("cannot locate RESERVED in display_escape_command")
    p["cmd_reserved"] = re.findall(r'"([^"]*)"', mr.group(1))

    # --- C16/C19: SHELL -------------------------------------------------------
    m = re.search(r"#\[cfg\(unix\)\]\s*mod os \{(.*?)\n\}", builder, re.S)
    if not m:
        raise ParamError("cannot locate unix mod os in builder.rs")
    ms = re.search(r"SHELL:\s*\[&str;\s*2\]\s*=\s*\[\"([^\"]*)\",\s*\"([^\"]*)\"\]", m.group(1))
    if not ms:
        raise ParamError("cannot locate SHELL")
    p["shell"] = [ms.group(1), ms.group(2)]

    # --- C01-C04: communicate constants --------------------------------------
    m = re.search(r"const\s+WRITE_SIZE:\s*usize\s*=\s*([0-9_]+)\s*;", comm)
    if not m:
        raise ParamError("cannot locate WRITE_SIZE")
    p["write_size"] = int(m.group(1).replace("_", ""))
    do_read = body_of(comm, r"fn\s+do_read\s*\([^{]*\{")
    m = re.search(r"\[0u8;\s*([0-9_]+)\]", do_read)
    if not m:
        raise ParamError("cannot locate the read chunk in do_read")
    p["read_chunk"] = int(m.group(1).replace("_", ""))
    pollfn = body_of(posix, r"pub fn poll\(fds:[^{]*\{")
    if not re.search(r"timeout\s*<=\s*i32::MAX\s+as\s+u128", pollfn) or "(i32::MAX, true)" not in pollfn:
        raise ParamError("cannot locate the i32::MAX clamp in posix::poll")
    p["poll_clamp_ms"] = 2 ** 31 - 1

    # --- C11: wait_timeout back-off ------------------------------------------
    wt = body_of(popen, r"fn\s+os_wait_timeout\(&mut self, dur: Duration\)[^{]*\{(?=\s*use std::cmp::min;)")
    m0 = re.search(r"let\s+mut\s+delay\s*=\s*Duration::from_millis\(([0-9_]+)\)", wt)
    m1 = re.search(r"delay\s*=\s*min\(delay\s*\*\s*([0-9]+),\s*Duration::from_millis\(([0-9_]+)\)\)", wt)
    if not m0 or not m1:
        raise ParamError("cannot locate the back-off constants in os_wait_timeout")
    p["wt_delay0_ms"] = int(m0.group(1).replace("_", ""))
    p["wt_factor"] = int(m1.group(1))
    p["wt_delay_max_ms"] = int(m1.group(2).replace("_", ""))

    # --- C07: exit code after failed exec ------------------------------------
    m = re.search(r"posix::_exit\(([0-9]+)\)", popen)
    if not m:
        raise ParamError("cannot locate posix::_exit(..) in os_start")
    p["exec_fail_exit"] = int(m.group(1))

    # --- C20: quote-triggering set of append_quoted --------------------------
    aq = body_of(popen, r"fn\s+append_quoted\(arg:\s*&OsStr,\s*cmdline:\s*&mut\s*Vec<u16>\)\s*\{")
    head = aq.split("cmdline.extend(arg.encode_wide());")[0]
    qs = [char_lit(c) for c in re.findall(r"c\s*==\s*" + CHAR_RE + r"\s*as\s*u16", head)]
    if not qs or "!arg.is_empty()" not in head:
        raise ParamError("cannot locate the quoting condition of append_quoted")
    p["win_quote_set"] = sorted(set(qs))
    return p


def nlist(xs):
    return "[" + "; ".join(str(x) for x in xs) + "]"


def render(p):
    def s2n(s):
        return nlist([ord(c) for c in s])
    out = []
    out.append("(* GENERATED by tools/params.py from /repo/src -- do not edit. *)")
    out.append("From Coq Require Import List NArith ZArith.")
    out.append("Import ListNotations.")
    out.append("Open Scope N_scope.")
    out.append("")
    out.append("(* builder.rs: display_escape::nice_char *)")
    out.append("Definition nice_punct : list N := %s." % nlist(p["nice_punct"]))
    out.append("Definition nice_alnum : bool := %s." % ("true" if p["nice_alnum"] else "false"))
    out.append("(* builder.rs: display_escape_command::RESERVED *)")
    out.append("Definition cmd_reserved : list (list N) := [%s]." % "; ".join(s2n(w) for w in p["cmd_reserved"]))
    out.append("(* builder.rs: unix SHELL *)")
    out.append("Definition shell0 : list N := %s." % s2n(p["shell"][0]))
    out.append("Definition shell1 : list N := %s." % s2n(p["shell"][1]))
    out.append("(* communicate.rs *)")
    out.append("Definition WRITE_SIZE : N := %d." % p["write_size"])
    out.append("Definition READ_CHUNK : N := %d." % p["read_chunk"])
    out.append("(* posix.rs: poll clamp, ms *)")
    out.append("Definition POLL_CLAMP_MS : N := %d." % p["poll_clamp_ms"])
    out.append("(* popen.rs: os_wait_timeout back-off, ms *)")
    out.append("Definition WT_DELAY0_MS : N := %d." % p["wt_delay0_ms"])
    out.append("Definition WT_FACTOR : N := %d." % p["wt_factor"])
    out.append("Definition WT_DELAY_MAX_MS : N := %d." % p["wt_delay_max_ms"])
    out.append("(* popen.rs: exit code of the child after a failed exec *)")
    out.append("Definition EXEC_FAIL_EXIT : N := %d." % p["exec_fail_exit"])
    out.append("(* popen.rs (windows): characters that force quoting in append_quoted *)")
    out.append("Definition win_quote_set : list N := %s." % nlist(p["win_quote_set"]))
    out.append("")
    return "\n".join(out)


def regenerate():
    """Returns (params dict, changed?).  Writes only when the text differs so that
    `make` stays a no-op on an unchanged tree."""
    p = extract()
    text = render(p)
    old = None
    if os.path.exists(OUT):
        with open(OUT, encoding="utf-8") as f:
            old = f.read()
    if old != text:
        os.makedirs(os.path.dirname(OUT), exist_ok=True)
        with open(OUT + ".tmp", "w", encoding="utf-8") as f:
            f.write(text)
        os.replace(OUT + ".tmp", OUT)
    return p, old != text


if __name__ == "__main__":
    try:
        p, ch = regenerate()
    except ParamError as e:
        print("params: ERROR %s" % e)
        sys.exit(2)
    print("params: %s%s" % (p, " (rewritten)" if ch else ""))
