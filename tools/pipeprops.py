"""C12 (handles clean up, no self-inflicted drop hang), C13 (pipelines connect stage i to stage i+1 and nothing else),
C14 (a pipeline failing to start part-way cleans up and returns promptly) on engine E2.

Real pipelines / single commands of scripted stubs run under the logging interposers with a watchdog.  Tie to the
models: Lib/Pipeline.v (`build`, `ppopen`, `setup_comm`: which stream of which stage is connected to what -- compared
with the children's self-reported descriptor tables by inode) and Lib/DropOrder.v (`acts`, `held_at_waits`: which pipe
ends the parent still holds at each blocking wait -- compared with the logged close/waitpid sequence), both through
the extracted models (ocaml/bin/sppure)."""
import json
import os
import re

import common as C
import e2
import execprops as X

STUB = e2.STUB


def eu(b):
    return X.eu(b)


# ------------------------------------------------------------------------------------------- scenarios

def stage_line(i, bad=False):
    if bad:
        return "%s,%s" % (e2.hexs("/nonexistent/prog-%d" % i), e2.hexs("s%d" % i))
    return "STUB,%s" % e2.hexs("s%d" % i)


def spec_of(t):
    """template -> realdrive spec lines"""
    spec = ["kind %s" % t["kind"]]
    if t["kind"] == "pipeline":
        for i in range(t["n"]):
            spec.append("stage " + stage_line(i, bad=(t.get("failk") == i)))
        spec.append("shape " + t.get("shape", "left"))
        if t.get("stderr_to"):
            spec.append("stderr_to file")
    else:
        spec.append("stage " + stage_line(0))
        spec.append("pstderr " + t.get("pstderr", "none"))
    pin = t.get("pstdin", "none")
    spec.append("pstdin " + ("data:" + e2.hexs(t["data"]) if pin == "data" else pin))
    spec.append("pstdout " + t.get("pstdout", "none"))
    if t.get("detached"):
        spec.append("stage_detached 1")
    spec.append("term " + t["term"])
    spec.append("after " + t.get("after", "drop"))
    if t.get("input") is not None:
        spec.append("input " + e2.hexs(t["input"]))
    cfg = []
    for i, ops in enumerate(t["stub"]):
        for op in ops:
            cfg.append("@s%d %s" % (i, op))
    spec.append("stubcfg " + ";".join(cfg))
    spec.append("path " + e2.hexs(b"/usr/bin:/bin"))
    spec.append("settle_ms %d" % t.get("settle_ms", 60))
    return spec


def scenario_of(t):
    s = {"id": t["id"], "tpl": t, "spec": spec_of(t), "files": {"pin.txt": t.get("filedata", b"")}, "collect": ["pout.txt", "perr.txt"],
         "timeout": t.get("watchdog", 20)}
    return s


def tags(n):
    return [b"<T%d>" % i for i in range(n)]


def gen_c13(r, count, tier):
    out = []
    for q in range(count):
        n = r.choice([2, 2, 3, 3, 4, 5, 6])
        # cate / pushe: the pipeline-level settings are made on an operand BEFORE it is composed further (input and
        # stderr sink on the left operand, output on the right one) -- composing must carry them along
        shapes = ["left", "iter"] + ((["cat:%d" % k for k in range(2, n - 1)] + ["cate:%d" % k for k in range(2, n - 1)] * 2) if n >= 4 else []) + (
            ["pushe"] if n >= 3 else [])
        term = r.choice(["popen", "popen", "join", "capture", "capture", "communicate"])
        size = r.choice([0, 5, 300, 70000, 300000]) if tier == "thorough" or q % 3 == 0 else r.choice([0, 5, 300])
        data = X.rand_bytes(r, size, 0, 255)
        t = {"id": "c13-%d" % q, "kind": "pipeline", "n": n, "shape": r.choice(shapes), "term": term}
        if term == "popen":
            t["pstdin"] = r.choice(["none", "pipe", "file", "null"])
            t["pstdout"] = r.choice(["pipe", "pipe", "file"])
            t["after"] = "io"
            t["stderr_to"] = r.chance(1, 2)
        elif term == "join":
            t["pstdin"] = r.choice(["none", "file", "null"])
            t["pstdout"] = r.choice(["file", "file", "null"])
            t["stderr_to"] = r.chance(1, 2)
        else:
            t["pstdin"] = r.choice(["none", "file", "data", "data"])
            t["pstdout"] = r.choice(["none", "none", "file"]) if term == "capture" else "none"   # capture pipes stdout itself
            t["stderr_to"] = False
        if t["pstdin"] == "pipe":
            # (the driver writes the whole input before it starts reading: keep it well below a pipe's capacity)
            data = data[:300]
            t["input"] = data
        elif t["pstdin"] == "file":
            t["filedata"] = data
        elif t["pstdin"] == "data":
            t["data"] = data
        # detached() only decides whether a drop waits: the wiring, the stderr sink and the status are the same
        if r.chance(1, 5) and term in ("capture", "join"):
            t["detached"] = True
        codes = [r.choice([0, 0, 1, 3, 42, 255]) for _ in range(n)]
        t["codes"] = codes
        slow = r.below(n) if r.chance(1, 2) else None      # a stage other than the last that exits late
        t["stub"] = []
        for i in range(n):
            ops = ["errline E%d-a" % i, ("streamcat " if size > 60000 else "tagcat ") + tags(n)[i].decode(), "errline E%d-b" % i]
            if slow == i and i < n - 1 and term != "popen":
                # the stage closes its output (so the next one sees end-of-file) and lingers: the pipeline must still
                # wait for it
                ops.append("close 1")
                ops.append("sleep 150")
            ops.append("exit %d" % codes[i])
            t["stub"].append(ops)
        out.append(t)
    return out


def gen_c14(r, count, tier):
    out = []
    combos = []
    for n in (2, 3, 4, 5):
        for k in range(n):
            for term in ("popen", "join", "capture", "communicate", "stream_stdout", "stream_stdin"):
                for pin in ("none", "pipe", "file", "data"):
                    if pin == "data" and term not in ("capture", "communicate"):
                        continue
                    if pin == "pipe" and term in ("capture", "communicate"):
                        continue          # piped stdin without data: the terminator panics after starting (C16)
                    for det in (False, True):
                        combos.append((n, k, term, pin, det))
    if tier == "quick":
        pick = [c for i, c in enumerate(combos) if i % 4 == r.below(4)][:count]
    else:
        pick = combos
    for q, (n, k, term, pin, det) in enumerate(pick):
        t = {"id": "c14-%d" % q, "kind": "pipeline", "n": n, "failk": k, "term": term, "pstdin": pin, "detached": det,
             "shape": r.choice(["left", "iter"]), "pstdout": "none" if term in ("capture", "communicate", "stream_stdout") else r.choice(["none", "null"]),
             "after": "drop", "stderr_to": False, "watchdog": 12}
        if pin == "data":
            t["data"] = b"some input for the first command\n"
        if pin == "file":
            t["filedata"] = b"file input\n"
        # every started command copies its input to its output: it ends when its input ends or its reader is gone;
        # every other scenario uses stages that write nothing before their input has ended (like cat: such a stage
        # never notices by itself that its reader is gone)
        if q % 2:
            t["stub"] = [["cat", "exit 0"] for i in range(n)]
        else:
            t["stub"] = [["streamcat <T%d>" % i, "exit 0"] for i in range(n)]
        out.append(t)
    # a started command that writes more than a pipe holds to the stderr the terminator captures (only the parent could
    # read that pipe: it must let go of it before it waits)
    q = len(out)
    for n in (2, 3):
        for term in ("capture", "communicate"):
            for det in (False, True):
                t = {"id": "c14-%d" % q, "kind": "pipeline", "n": n, "failk": n - 1, "term": term, "pstdin": "none", "detached": det,
                     "shape": "left", "pstdout": "none", "after": "drop", "stderr_to": False, "watchdog": 12}
                t["stub"] = [["write 2 200000", "exit 0"]] + [["cat", "exit 0"] for i in range(1, n)]
                out.append(t)
                q += 1
    # a detached first command that simply keeps running: the start failure is reported at once, nobody waits for it
    q = len(out)
    for n in (2, 3):
        for term in ("join", "capture", "stream_stdin", "popen"):
            t = {"id": "c14-%d" % q, "kind": "pipeline", "n": n, "failk": n - 1, "term": term, "pstdin": "none", "detached": True,
                 "shape": "left", "pstdout": "none" if term in ("capture",) else "null", "after": "drop", "stderr_to": False, "watchdog": 12,
                 "prompt_ms": 1500}
            t["stub"] = [["close 0", "close 1", "sleep 3000", "exit 0"]] + [["cat", "exit 0"] for i in range(1, n)]
            out.append(t)
            q += 1
    # an unbounded producer in front: it ends only when the reader of its output is gone -- which it is once the
    # command that cannot be started has dropped the File it was handed (nobody else may hold that pipe's read end)
    q = len(out)
    for n in (2, 3, 4):
        for k in range(1, n):
            for term in (("join", "popen", "capture", "stream_stdout") if tier != "quick" else (("join", "capture") if (n + k) % 2 else ("popen", "stream_stdout"))):
                for det in (False, True):
                    t = {"id": "c14-%d" % q, "kind": "pipeline", "n": n, "failk": k, "term": term, "pstdin": "none", "detached": det,
                         "shape": "left", "pstdout": "none" if term in ("capture", "stream_stdout") else "null",
                         "after": "drop", "stderr_to": False, "watchdog": 12, "producer": True}
                    # (every other one ignores write errors, like a shell loop of echo: only the default action of SIGPIPE ends it)
                    t["stub"] = [["floodhard 1" if q % 2 else "writeforever 1", "exit 0"]] + [["streamcat <T%d>" % i, "exit 0"] for i in range(1, n)]
                    out.append(t)
                    q += 1
    return out


CHILD = {
    "noread-flood1": ["close 0", "writeforever 1", "exit 0"],
    "exit": ["exit 0"],
    "late": ["sleep 150", "exit 3"],
    "readeof": ["readeof", "exit 0"],
    "filter": ["streamcat <T>", "exit 0"],
    "burst1": ["write 1 200000", "exit 0"],
    "burst2": ["write 2 200000", "exit 0"],
    "flood1": ["writeforever 1", "exit 0"],
    "flood2": ["writeforever 2", "exit 0"],
    "hold": ["hold"],
    "cat": ["cat", "exit 0"],
}
KCLS = {"exit": "KExit", "late": "KExit", "readeof": "KReadEOF", "filter": "KFilter", "burst1": "KWriter 1", "burst2": "KWriter 2",
        "flood1": "KWriter 1", "flood2": "KWriter 2"}


def gen_c12(r, count, tier):
    out = []
    single = []
    for det in (False, True):
        for child in ("exit", "late", "burst1", "flood1"):
            for after in ("drop", "read:10", "read_all"):
                if child == "flood1" and after == "read_all":
                    continue
                single.append(("stream_stdout", child, after, det, {}))
        for child in ("exit", "burst2", "flood2"):
            for after in ("drop", "read:10"):
                single.append(("stream_stderr", child, after, det, {}))
        for child in ("exit", "late", "readeof", "filter"):
            for after in ("drop", "write:" + e2.hexs(b"x" * 100)):
                single.append(("stream_stdin", child, after, det, {"pstdout": "null"}))
        for child in ("exit", "late"):
            single.append(("popen", child, "drop", det, {}))
            single.append(("popen", child, "sleep_drop:300", det, {}))
        single.append(("join", "late", "drop", det, {}))
        single.append(("capture", "burst1", "drop", det, {}))
        single.append(("capture", "late", "drop", det, {}))
        # the error path of capture: the child never reads the input it is fed (the write fails with EPIPE) and either
        # is gone already or keeps writing output
        single.append(("capture", "exit", "drop", det, {"pstdin": "data", "data": b"i" * 300000, "expect_err": 32}))
        single.append(("capture", "noread-flood1", "drop", det, {"pstdin": "data", "data": b"i" * 300000, "expect_err": 32}))
    # (the held child must not keep the orchestrator's own pipes open: its output goes to /dev/null)
    single.append(("popen", "hold", "drop", True, {"pstdout": "null", "pstderr": "null"}))
    q = 0
    for (term, child, after, det, extra) in single:
        t = {"id": "c12-%d" % q, "kind": "handle", "n": 1, "term": term, "after": after, "detached": det, "child": [child],
             "stub": [CHILD[child]], "watchdog": 12}
        t.update(extra)
        if child == "burst1" and term not in ("stream_stdout", "capture"):
            t["pstdout"] = "null"
        out.append(t)
        q += 1
    # pipelines
    pl = []
    for det in (False, True):
        for n in (2, 3, 5):
            pl.append(("stream_stdout", ["flood1"] + ["filter"] * (n - 1), "read:10", det, {}))
            pl.append(("stream_stdout", ["burst1"] + ["filter"] * (n - 1), "drop", det, {}))
            pl.append(("stream_stdout", ["exit"] * n, "read_all", det, {}))
            pl.append(("stream_stdin", ["filter"] * (n - 1) + ["readeof"], "write:" + e2.hexs(b"y" * 70000), det, {"pstdout": "null"}))
            pl.append(("stream_stdin", ["readeof"] + ["filter"] * (n - 1), "drop", det, {"pstdout": "null"}))
            pl.append(("popen", ["late"] + ["exit"] * (n - 1), "drop", det, {"pstdout": "null"}))
            pl.append(("join", ["late"] + ["filter"] * (n - 1), "drop", det, {"pstdout": "null"}))
            pl.append(("capture", ["burst1"] + ["filter"] * (n - 1), "drop", det, {}))
            pl.append(("capture", ["noread-flood1"] + ["filter"] * (n - 1), "drop", det, {"pstdin": "data", "data": b"i" * 300000, "expect_err": 32}))
    # a pipeline whose last command cannot be started, reached through the adapters: the pipe ends the caller never
    # got must be released before the started commands are waited for
    for n in (3, 4):
        pl.append(("stream_stdin", ["cat"] * n, "drop", False, {"failk": n - 1, "expect_err": 2, "pstdout": "null"}))
        pl.append(("stream_stdout", ["cat"] * n, "drop", False, {"failk": n - 1, "expect_err": 2, "pstdin": "pipe"}))
        pl.append(("capture", ["cat"] * n, "drop", False, {"failk": n - 1, "expect_err": 2, "pstdin": "data", "data": b"i" * 1000}))
    for (term, kids, after, det, extra) in pl:
        t = {"id": "c12-%d" % q, "kind": "pipeline", "n": len(kids), "term": term, "after": after, "detached": det, "child": kids,
             "stub": [CHILD[k] for k in kids], "shape": r.choice(["left", "iter"]), "stderr_to": False, "watchdog": 12}
        t.update(extra)
        out.append(t)
        q += 1
    if tier == "quick":
        return out
    # thorough: the same shapes at more pipeline lengths
    more = []
    for n in (4, 6, 8):
        for det in (False, True):
            more.append(("stream_stdout", ["flood1"] + ["filter"] * (n - 1), "read:10", det, {}))
            more.append(("stream_stdin", ["filter"] * n, "write:" + e2.hexs(b"z" * 200000), det, {"pstdout": "null"}))
    for (term, kids, after, det, extra) in more:
        t = {"id": "c12-%d" % q, "kind": "pipeline", "n": len(kids), "term": term, "after": after, "detached": det, "child": kids,
             "stub": [CHILD[k] for k in kids], "shape": "iter", "stderr_to": False, "watchdog": 15}
        t.update(extra)
        out.append(t)
        q += 1
    return out


def tpl_to_json(t):
    def enc(v):
        if isinstance(v, bytes):
            return {"b": v.hex()}
        if isinstance(v, (list, tuple)):
            return [enc(x) for x in v]
        if isinstance(v, dict):
            return {k: enc(x) for k, x in v.items()}
        return v
    return json.dumps(enc(t), sort_keys=True)


def tpl_from_json(text):
    def dec(v):
        if isinstance(v, dict) and set(v.keys()) == {"b"}:
            return bytes.fromhex(v["b"])
        if isinstance(v, dict):
            return {k: dec(x) for k, x in v.items()}
        if isinstance(v, list):
            return [dec(x) for x in v]
        return v
    return dec(json.loads(text))


def describe(t):
    return "%s %s n=%d%s term=%s after=%s stdin=%s stdout=%s%s%s%s" % (
        t["id"], t["kind"], t["n"], " shape=%s" % t["shape"] if t.get("shape") else "", t["term"], t.get("after", "-"),
        t.get("pstdin", "none"), t.get("pstdout", "none"), " stderr_to=file" if t.get("stderr_to") else "",
        " detached" if t.get("detached") else "", " fail@%d" % t["failk"] if t.get("failk") is not None else "") + (
        " children=%s" % "/".join(t["child"]) if t.get("child") else "")


# ------------------------------------------------------------------------------------------- observation helpers

def out_field(s, key):
    for ln in s["out"]:
        m = re.search(r"(?:^|[^a-z_])" + re.escape(key) + r" (.*)$", ln)
        if m:
            return m.group(1)
    return None


def kv_of(text):
    return dict(x.split("=", 1) for x in (text or "").split() if "=" in x)


def parent_log(s):
    return s["logs"].get(s["parent_pid"], [])


def forks(s):
    return [int(l.split("=")[1]) for l in parent_log(s) if l.startswith("fork = ") and int(l.split("=")[1]) > 0]


def zombies(s):
    for ln in s["out"]:
        m = re.search(r"zombies (\d+) running (\d+)", ln)
        if m:
            return int(m.group(1)), int(m.group(2))
    return None


def model_pipeline(t):
    """the c13 line of the extracted model for this template"""
    stages = "|".join("%s,%s" % (eu(os.fsencode(STUB) if t.get("failk") != i else b"/nonexistent/prog-%d" % i), eu(b"s%d" % i)) for i in range(t["n"]))
    pin = {"none": "N", "pipe": "P", "file": "F700", "null": "F701"}.get(t.get("pstdin", "none"))
    if t.get("pstdin") == "data":
        pin = "D" + eu(t["data"])
    pout = {"none": "N", "pipe": "P", "file": "F702", "null": "F703"}[t.get("pstdout", "none")]
    term = t["term"]
    if term == "stream_stdout":
        pout = "P"
    if term == "stream_stdin":
        pin = "P"
    mode = "comm" if term in ("capture", "communicate") else "popen"
    return "c13 %s %s %s %s %d %d %s" % (stages, t.get("shape", "left"), pin, pout, 1 if t.get("stderr_to") else 0,
                                          t["failk"] if t.get("failk") is not None else -1, mode)


def parse_model(line):
    parts = line.split(" | ")
    head = kv_of(parts[0])
    st = [kv_of(p) for p in parts[1:]]
    return head, st


def pipe_labels(s, launches, comm):
    """walk the parent's log from the terminator on: which descriptor is the parent's end of which (stage, stream);
    returns the list of (stage waited for, sorted list of held ends 'i.s') for every blocking waitpid, and the forks"""
    log = parent_log(s)
    start = next((i for i, l in enumerate(log) if l.startswith("mark term")), 0)
    held = {}          # fd -> (stage, stream)
    pid_stage = {}
    stage = 0
    pending = []       # pipes created for the stage being launched: [(r, w)]
    waits = []
    first_pipe_is_capture = comm
    for ln in log[start:]:
        p = ln.split()
        if p[0] in ("pipe", "pipe2") and p[-1] == "0" and "=" in p:
            rfd, wfd = int(p[1]), int(p[2])
            if first_pipe_is_capture:
                first_pipe_is_capture = False
                held[rfd] = ("c", 2)          # the capture pipe's read end (the write end lives in the Rc<File>)
                held[wfd] = ("c", 9)
                continue
            pending.append((rfd, wfd))
        elif p[0] == "fork":
            pid = int(p[-1])
            if pid > 0:
                pid_stage[pid] = stage
                # pending[0] is the launch-status pipe; then stdin, stdout, stderr pipes of this stage in that order
                L = launches[stage] if stage < len(launches) else {}
                streams = [k for k, key in ((0, "in"), (1, "out"), (2, "err")) if L.get(key) == "P"]
                for (rfd, wfd), st in zip(pending[1:], streams):
                    held[wfd if st == 0 else rfd] = (stage, st)
                pending = []
                stage += 1
        elif p[0] == "close":
            held.pop(int(p[1]), None)
        elif p[0] == "waitpid" and p[2] == "0":
            pid = int(p[1])
            if pid in pid_stage:
                ends = sorted("%d.%d" % (a, b) for (a, b) in held.values() if a != "c")
                waits.append((pid_stage[pid], ends))
    return waits, pid_stage


def model_waits(kind, det, held_lists):
    held = ",".join(".".join(str(x) for x in h) if h else "-" for h in held_lists)
    line = X.sppure(["c12 %s %d %s" % (kind, 1 if det else 0, held)])[0]
    body = line[6:].strip()
    res = []
    if body:
        for w in body.split(";"):
            i, ends = w.split(":")
            res.append((int(i), sorted(x for x in ends.split(",") if x)))
    return res


def held_of(launches, term, single=False):
    """the parent-held pipe ends per stage right after the terminator's launches, as the library keeps them in the Popens"""
    held = []
    n = len(launches)
    for i, L in enumerate(launches):
        h = []
        if L.get("in") == "P":
            h.append(0)
        if L.get("out") == "P" and (i == n - 1):
            h.append(1)          # inner stdout pipes were moved into the next stage
        if L.get("err") == "P":
            h.append(2)
        held.append(h)
    return held


# ------------------------------------------------------------------------------------------- judges

def child_reports(s, pid_stage):
    reps = {}
    for pid, st in pid_stage.items():
        if pid in s["reps"]:
            reps[st] = e2.parse_report(s["reps"][pid])
    return reps


def judge_c13(chk, s, mline):
    t = s["tpl"]
    bad, tie = [], []
    head, launches = parse_model(mline)
    n = t["n"]
    term = t["term"]
    res = out_field(s, "term")
    if head.get("outcome") != "ok" or len(launches) != n:
        tie.append("model outcome %s with %d launches for a pipeline whose stages all exist" % (head.get("outcome"), len(launches)))
        return bad, tie
    if res is None or not res.startswith("ok"):
        bad.append("the terminator did not succeed: %s" % res)
        return bad, tie
    waits, pid_stage = pipe_labels(s, launches, term in ("capture", "communicate"))
    if len(pid_stage) != n:
        bad.append("%d processes were started for %d stages" % (len(pid_stage), n))
        return bad, tie
    reps = child_reports(s, pid_stage)
    before = {}
    for ln in s["out"]:
        if ln.startswith("fds_before "):
            before = e2.parse_fdtable(ln)
    # wiring by inode
    for i in range(n):
        rp = reps.get(i)
        if rp is None:
            bad.append("stage %d did not report" % i)
            continue
        L = launches[i]
        fd = rp["fds"]
        extra = [k for k in fd if k > 2]
        if extra:
            bad.append("stage %d holds descriptors %s beyond 0,1,2 (%s)" % (i, extra, [fd[k]["target"] for k in extra]))
        # stdin
        w = L["in"]
        g = fd.get(0, {"target": None, "ino": None})
        if w == "N":
            if g["target"] != before.get(0, (None,))[0]:
                tie.append("stage %d stdin is %s, model: inherited" % (i, g["target"]))
        elif w == "P":
            if not (g["target"] or "").startswith("pipe:"):
                bad.append("stage %d stdin is %s, expected the pipeline's input pipe" % (i, g["target"]))
        elif w.startswith("F1"):
            j = int(w[1:]) - 1000
            o = reps.get(j, {"fds": {}})["fds"].get(1)
            if j != i - 1:
                tie.append("model connects stage %d's stdin to stage %d" % (i, j))
            if o is None or o["ino"] != g["ino"] or not (g["target"] or "").startswith("pipe:"):
                bad.append("stage %d's stdin (%s) is not the pipe stage %d writes its stdout to (%s)" % (i, g["target"], j, o and o["target"]))
        elif w == "F700":
            if not (g["target"] or "").endswith("/pin.txt"):
                bad.append("stage %d stdin is %s, expected the input file" % (i, g["target"]))
        elif w == "F701":
            if g["target"] != "/dev/null":
                bad.append("stage %d stdin is %s, expected /dev/null" % (i, g["target"]))
        # stdout
        w = L["out"]
        g = fd.get(1, {"target": None, "ino": None})
        if i < n - 1:
            nxt = reps.get(i + 1, {"fds": {}})["fds"].get(0)
            if w != "P":
                tie.append("model: inner stage %d stdout %s" % (i, w))
            if nxt is None or nxt["ino"] != g["ino"] or not (g["target"] or "").startswith("pipe:"):
                bad.append("stage %d's stdout (%s) does not feed stage %d's stdin (%s)" % (i, g["target"], i + 1, nxt and nxt["target"]))
        else:
            if w == "N" and g["target"] != before.get(1, (None,))[0]:
                bad.append("the last stage's stdout is %s, expected the parent's own" % g["target"])
            if w == "P" and not (g["target"] or "").startswith("pipe:"):
                bad.append("the last stage's stdout is %s, expected the output pipe" % g["target"])
            if w == "F702" and not (g["target"] or "").endswith("/pout.txt"):
                bad.append("the last stage's stdout is %s, expected the output file" % g["target"])
        # stderr
        w = L["err"]
        g = fd.get(2, {"target": None, "ino": None})
        if w == "F800" and not (g["target"] or "").endswith("/perr.txt"):
            bad.append("stage %d's stderr is %s, expected the shared stderr file" % (i, g["target"]))
        if w == "F900" and not (g["target"] or "").startswith("pipe:"):
            bad.append("stage %d's stderr is %s, expected the capture pipe" % (i, g["target"]))
        if w == "N" and g["target"] != before.get(2, (None,))[0]:
            bad.append("stage %d's stderr is %s, expected the parent's own" % (i, g["target"]))
    # a pipe between two stages is held by exactly those two
    inos = {}
    for i, rp in reps.items():
        for k, e in rp["fds"].items():
            if e["target"].startswith("pipe:"):
                inos.setdefault(e["ino"], []).append((i, k))
    for i in range(n - 1):
        a = reps.get(i, {"fds": {}})["fds"].get(1)
        if a and sorted(inos.get(a["ino"], [])) != [(i, 1), (i + 1, 0)]:
            bad.append("the pipe behind stage %d's stdout is held by %s, expected exactly stage %d's stdout and stage %d's stdin" % (
                i, sorted(inos.get(a["ino"], [])), i, i + 1))
    # the data
    inp = {"pipe": t.get("input", b""), "file": t.get("filedata", b""), "data": t.get("data", b"")}.get(t.get("pstdin"), b"")
    want = b"".join(reversed(tags(n))) + inp
    got = None
    kv = kv_of(res)
    if term == "popen":
        if t.get("pstdout") == "pipe":
            o = out_field(s, "out")
            got = e2.unhex(o) if o is not None else None
        elif t.get("pstdout") == "file":
            got = s["wd_files"].get("pout.txt")
    elif term == "join":
        if t.get("pstdout") == "file":
            got = s["wd_files"].get("pout.txt")
    elif term in ("capture", "communicate"):
        if t.get("pstdout") == "file":
            # capture pipes stdout itself: the file setting is overridden (the model says so: last stage out=P)
            pass
        got = e2.unhex(kv["out"]) if kv.get("out") not in (None, "none") else (b"" if term == "capture" else None)
    if got is not None and got != want:
        bad.append("the pipeline's output is %d bytes %r..., expected the stages' tags in order followed by the %d input bytes (%r...)" % (
            len(got), got[:40], len(inp), want[:40]))
    if got is None and (t.get("pstdout") in ("pipe", "file") and term in ("popen", "join")):
        bad.append("no output was collected")
    # stderr: every stage's lines, none lost
    errs = None
    if t.get("stderr_to"):
        errs = s["wd_files"].get("perr.txt", b"")
    elif term in ("capture", "communicate"):
        errs = e2.unhex(kv["err"]) if kv.get("err") not in (None, "none") else b""
    if errs is not None:
        wantl = sorted([b"E%d-a" % i for i in range(n)] + [b"E%d-b" % i for i in range(n)])
        gotl = sorted(l for l in errs.split(b"\n") if l)
        if gotl != wantl:
            bad.append("the shared stderr misses %s and has unexpected %s (every stage writes two lines)" % (
                [x for x in wantl if x not in gotl][:6], [x for x in gotl if x not in wantl][:6]))
    # status of the last stage, and everything reaped at return
    if term in ("join", "capture"):
        stt = kv.get("status")
        if stt != "exited:%d" % t["codes"][-1]:
            bad.append("returned status %s, the last stage exited with %d" % (stt, t["codes"][-1]))
        # the model's pjoin / pcapture (join_status_is_last, capture_status_is_last) names the command whose status is reported
        ms = head.get("status", "")
        if ms.startswith("of:") and 0 <= int(ms[3:]) < n:
            if stt != "exited:%d" % t["codes"][int(ms[3:])]:
                tie.append("returned status %s, the model reports the status of stage %s (%d)" % (stt, ms[3:], t["codes"][int(ms[3:])]))
        else:
            tie.append("returned status %s, the model says %s" % (stt, ms))
    if term == "popen":
        for i in range(n):
            w = [ln for ln in s["out"] if re.search(r"wait %d " % i, ln)]
            if w and not w[0].strip().endswith("exited:%d" % t["codes"][i]):
                bad.append("stage %d: wait reported %s, it exited with %d" % (i, w[0].split()[-1], t["codes"][i]))
    z = zombies(s)
    if term in ("join", "capture", "popen") and z is not None and (z[0] or z[1]) and not t.get("detached"):
        bad.append("after the pipeline completed %d zombie(s) and %d running stage(s) remain" % z)
    return bad, tie


def judge_c14(chk, s, mline):
    t = s["tpl"]
    bad, tie = [], []
    head, launches = parse_model(mline)
    k = t["failk"]
    if head.get("outcome") != "err:%d" % k or len(launches) != k:
        tie.append("model outcome %s with %d launches, expected err:%d with %d" % (head.get("outcome"), len(launches), k, k))
    res = out_field(s, "term")
    if res is None:
        bad.append("the terminator reported nothing")
        return bad, tie
    if not res.startswith("err io:2"):
        bad.append("starting the pipeline returned %s, expected the error of the command that cannot be started" % res)
    ms = out_field(s, "term_ms")
    if t.get("prompt_ms") and ms is not None and int(ms) > t["prompt_ms"]:
        bad.append("the start failure was reported only after %s ms: a detached command that is simply still running was waited for" % ms)
    ms = out_field(s, "term_ms")
    if ms is not None and int(ms) > 5000:
        bad.append("the failed start took %s ms" % ms)
    nf = len(forks(s))
    if nf != k + 1:
        bad.append("%d processes were forked, expected %d (the commands before the failing one and the failed attempt itself)" % (nf, k + 1))
    before = after = None
    for ln in s["out"]:
        if ln.startswith("fds_before "):
            before = e2.parse_fdtable(ln)
        if ln.startswith("fds_after "):
            after = e2.parse_fdtable(ln)
    if before is not None and after is not None and sorted(before) != sorted(after):
        bad.append("descriptors of the attempt remain open in the parent: %s" % sorted(set(after) - set(before)))
    z = zombies(s)
    if not t.get("detached") and z is not None and (z[0] or z[1]):
        bad.append("after the failed start %d zombie(s) and %d running command(s) of the attempt remain" % z)
    # the command that could not be started is collected whether detached or not (only commands that did start may
    # be left to themselves by detached())
    zp = [int(x) for x in (out_field(s, "zombie_pids") or "").split(",") if x]
    fk = forks(s)
    if len(fk) > k and fk[k] in zp:
        bad.append("the process forked for the command that could not be started (stage %d) was left as a zombie%s" % (k, " (detached)" if t.get("detached") else ""))
    # the order of closes and waits on the error path
    comm = t["term"] in ("capture", "communicate")
    waits, pid_stage = pipe_labels(s, launches + [{}], comm)
    held = held_of(launches, t["term"])
    # the pipe behind the last started stage's stdout was moved into the command that failed: not held any more
    if held:
        held[-1] = [x for x in held[-1] if x != 1]
    det = t.get("detached")
    mw = model_waits("failed", det, held) if k > 0 else []
    rw = [(i, e) for (i, e) in waits if i < k]
    if rw != mw:
        tie.append("blocking waits and the pipe ends held at each: logged %s, Lib/DropOrder.v %s" % (rw, mw))
    return bad, tie


def judge_c12(chk, s, mline):
    t = s["tpl"]
    bad, tie = [], []
    det = t.get("detached")
    res = out_field(s, "term")
    term = t["term"]
    z = zombies(s)
    if t.get("expect_err") is not None:
        # the call fails (broken pipe); whatever it started must be reaped all the same
        if res is None or not (res.startswith("err io:%d" % t["expect_err"]) or res.startswith("ok")):
            bad.append("the terminator returned %s, expected the broken-pipe error" % res)
        if not det and z is not None and (z[0] or z[1]):
            bad.append("after the failed %s %d zombie(s) and %d running child(ren) remain" % (term, z[0], z[1]))
        return bad, tie
    if res is None or not res.startswith("ok"):
        bad.append("the terminator did not succeed: %s" % res)
        return bad, tie
    dropped = out_field(s, "dropped_ms")
    if term in ("popen", "stream_stdout", "stream_stderr", "stream_stdin") and dropped is None:
        bad.append("the handle was never dropped")
    if det and t["child"] == ["hold"]:
        if dropped is not None and int(dropped) > 1500:
            bad.append("dropping a detached Popen blocked for %s ms" % dropped)
        if z is not None and z[1] == 0:
            bad.append("the detached child is no longer running after the drop (it was reaped or killed)")
        return bad, tie
    if not det and z is not None and (z[0] or z[1]):
        bad.append("after the handle was dropped %d zombie(s) and %d running child(ren) remain" % z)
    if det and term in ("popen", "stream_stdout", "stream_stderr", "stream_stdin") and dropped is not None and int(dropped) > 1500:
        bad.append("dropping a detached handle blocked for %s ms" % dropped)
    if det and term in ("popen", "stream_stdout", "stream_stderr", "stream_stdin"):
        # ... and never reaps: no status query between the drop and the end, and a child that had exited before the
        # drop is still there for the caller to collect
        plog = parent_log(s)
        di = next((i for i, l in enumerate(plog) if l.startswith("mark drop")), None)
        if di is not None:
            w = [l for l in plog[di:] if l.startswith("waitpid ")]
            if w:
                bad.append("dropping a detached handle queried / reaped the child: %s" % w[0])
        if t.get("after", "").startswith("sleep_drop") and t["child"] == ["exit"]:
            zp = [int(x) for x in (out_field(s, "zombie_pids") or "").split(",") if x]
            fk = forks(s)
            if fk and fk[0] not in zp:
                bad.append("the detached child, which had exited before the handle was dropped, is no longer there to be collected (the drop reaped it)")
    # order of closes and waits of the drop
    if t["kind"] == "pipeline":
        head, launches = parse_model(mline)
    else:
        L = {"in": "P" if (t.get("pstdin") in ("pipe", "data") or term == "stream_stdin") else "N",
             "out": "P" if (t.get("pstdout") == "pipe" or term in ("stream_stdout", "capture")) else "N",
             "err": "P" if (t.get("pstderr") == "pipe" or term == "stream_stderr") else "N"}
        launches = [L]
    if term in ("capture", "communicate"):
        return bad, tie           # the communicator's own closes are C01/C02's subject
    waits, pid_stage = pipe_labels(s, launches, False)
    held = held_of(launches, term)
    kind = {("handle", "popen"): "popen", ("handle", "stream_stdout"): "readout", ("handle", "stream_stderr"): "readerr",
            ("handle", "stream_stdin"): "write", ("handle", "join"): "join", ("pipeline", "popen"): "vec",
            ("pipeline", "stream_stdout"): "readpipe", ("pipeline", "stream_stdin"): "writepipe", ("pipeline", "join"): "joinpipe"}[(t["kind"], term)]
    mw = model_waits(kind, det, held)
    if waits != mw:
        tie.append("blocking waits and the pipe ends held at each: logged %s, Lib/DropOrder.v %s" % (waits, mw))
    return bad, tie


JUDGE = {"C12": judge_c12, "C13": judge_c13, "C14": judge_c14}
GEN = {"C12": gen_c12, "C13": gen_c13, "C14": gen_c14}
DEPS = {"C12": ["theories/Proofs/DropProofs.vo"],
        "C13": ["theories/Proofs/PipelineProofs.vo"],
        "C14": ["theories/Proofs/PipelineProofs.vo", "theories/Proofs/DropProofs.vo"]}
COUNT = {"C12": (0, 0), "C13": (120, 1200), "C14": (90, 0)}


def run(chk, tier, pid, explicit=None):
    r = C.Rng(chk.seed * 32452843 + int(pid[1:]))
    chk.cov["trusted_base"] = C.BASE_TRUSTED + [
        "harness/src/bin/realdrive.rs (pipeline / handle scenario kinds, logging interposers, watchdog by the orchestrator), harness/src/bin/childstub.rs (scripted stages, self-reported descriptor tables with inodes)",
        "extraction of Lib/Pipeline.v and Lib/DropOrder.v to OCaml (ExtrOcamlBasic only; ocaml/bin/sppure)",
        "Lib/DropOrder.v's notion of when a child exits (each child blocked only on the handle's own pipes, classes KExit / KReadEOF / KWriter / KFilter) is a model of process behaviour, exercised by the scripted stubs, not proved about arbitrary programs",
        "tools/pipeprops.py: mapping of logged descriptor numbers to (stage, stream) from the order in which Popen::create makes its pipes",
    ]
    pr = C.props_check(pid, DEPS[pid])
    chk.obligations(pr)
    ok, log = C.build_harness()
    if not ok:
        chk.tie_broken("harness does not build against /repo: " + log[-800:])
        return
    tpls = explicit if explicit is not None else GEN[pid](r, COUNT[pid][0 if tier == "quick" else 1], tier)
    scns = [scenario_of(t) for t in tpls]
    e2.run_scenarios(scns, pid)
    pls = [s for s in scns if s["tpl"]["kind"] == "pipeline"]
    mlines = dict(zip([s["id"] for s in pls], X.sppure([model_pipeline(s["tpl"]) for s in pls]) if pls else []))
    ndiv = 0
    ties = []
    dist = {"term": {}, "n": {}, "kind": {}}
    for s in scns:
        t = s["tpl"]
        for k, v in (("term", t["term"]), ("n", t["n"]), ("kind", t["kind"])):
            dist[k][str(v)] = dist[k].get(str(v), 0) + 1
        if s.get("timed_out"):
            chk.violation("%s: the call or the drop never returned (watchdog %ss) [%s]" % (pid, s["timeout"], describe(t)), tpl_to_json(t))
            continue
        if s.get("rc") != 0:
            chk.violation("%s: the scenario process failed (rc=%s) [%s] %s" % (pid, s.get("rc"), describe(t), s.get("stderr", "")[-200:].replace("\n", " ")), tpl_to_json(t))
            continue
        bad, tie = JUDGE[pid](chk, s, mlines.get(s["id"], ""))
        if bad:
            chk.violation("%s: %s [%s]" % (pid, "; ".join(bad[:3]), describe(t)), tpl_to_json(t))
        if tie:
            ties.append("%s [%s]" % ("; ".join(tie[:2]), describe(t)))
        if bad or tie:
            ndiv += 1
    if ties:
        chk.tie_broken("E2: %d of %d scenarios disagree with the model; e.g. %s\n%s" % (len(ties), len(scns), ties[0], ""))
    chk.cov["evaluations"] = len(scns)
    chk.cov["traces_validated_against_impl"] = len(scns) - ndiv
    chk.cov["distinct_nontrivial"] = len(set(tpl_to_json(s["tpl"]) for s in scns if s["tpl"]["n"] >= 2 or s["tpl"].get("child", ["exit"]) != ["exit"]))
    chk.cov["rule"] = {
        "C12": "scenario = a terminator of a single command or a pipeline (popen, join, capture, stream adapters), scripted children (exit early/late, read to EOF, copy stdin to stdout, write 200 KB, write without end, hold), what is done with the handle (dropped at once, after a partial read, after reading everything, after writing), detached or not; non-trivial = a pipeline or a child that does not simply exit",
        "C13": "scenario = n in 2..6 scripted stages that each prepend their own tag to what they read and write two stderr lines, a composition shape (left-nested |, from_exec_iter, pipeline|pipeline at every split), pipeline stdin (inherit/pipe/file/null/data) and stdout (inherit/pipe/file/null), optional shared stderr file, input sizes 0..300000, per-stage exit codes, a late-exiting stage, terminator popen/join/capture/communicate; non-trivial = all of them (n >= 2)",
        "C14": "scenario = pipeline of n in 2..5 copy-stages whose k-th command does not exist, every k, stdin inherit/pipe/file/data, every terminator, detached or not; non-trivial = all of them",
    }[pid]
    chk.cov["samples"] = [{"id": s["id"], "what": describe(s["tpl"]), "term": out_field(s, "term")} for s in scns[:4]]
    chk.cov["input_distribution"] = dist


def replay(chk, path, pid):
    lines = [l.rstrip("\n") for l in open(path, encoding="utf-8") if l.strip() and not l.startswith("#")]
    run(chk, "quick", pid, explicit=[tpl_from_json(lines[0])])


def c08_pipelines(chk, tier):
    """C08 over pipelines: no stage holds a descriptor beyond 0,1,2 -- in particular neither end of the stderr capture
    pipe of Pipeline::capture/communicate (F8) nor an end of another stage's pipe -- and a stage that closes its
    stderr and lingers does not hold back end-of-file on the captured stream"""
    r = C.Rng(chk.seed * 7 + 8)
    tpls = [t for t in gen_c13(r, 60 if tier == "quick" else 400, tier)]
    for i, t in enumerate(tpls):
        t["id"] = "c08-pl-%d" % i
    # a first stage that closes all its standard streams and lingers for a second: the capture must not wait for it
    for i, n in enumerate((2, 3)):
        tpls.append({"id": "c08-linger-%d" % i, "kind": "pipeline", "n": n, "shape": "left", "term": "communicate", "pstdin": "none", "pstdout": "none",
                     "stderr_to": False, "codes": [0] * n, "linger": True,
                     "stub": [["close 0", "close 1", "close 2", "sleep 1500", "exit 0"]] + [["tagcat <T%d>" % j, "exit 0"] for j in range(1, n)]})
    scns = [scenario_of(t) for t in tpls]
    e2.run_scenarios(scns, "C08pl")
    mlines = X.sppure([model_pipeline(s["tpl"]) for s in scns])
    n_ok = 0
    for s, ml in zip(scns, mlines):
        t = s["tpl"]
        if s.get("timed_out") or s.get("rc") != 0:
            chk.violation("C08: pipeline scenario did not complete [%s]" % describe(t), tpl_to_json(t))
            continue
        head, launches = parse_model(ml)
        waits, pid_stage = pipe_labels(s, launches, t["term"] in ("capture", "communicate"))
        reps = child_reports(s, pid_stage)
        bad = []
        for i, rp in sorted(reps.items()):
            extra = [k for k in rp["fds"] if k > 2]
            if extra:
                bad.append("stage %d holds descriptors %s (%s) beyond 0,1,2" % (i, extra, [rp["fds"][k]["target"] for k in extra]))
        if t.get("linger"):
            ms = out_field(s, "term_ms")
            if ms is not None and int(ms) > 1000:
                bad.append("end-of-file on the captured streams arrived only after %s ms: a stage that had closed its own streams was still holding a pipe end" % ms)
        if bad:
            chk.violation("C08: %s [%s]" % ("; ".join(bad[:3]), describe(t)), tpl_to_json(t))
        else:
            n_ok += 1
    chk.cov["evaluations"] = chk.cov.get("evaluations", 0) + len(scns)
    chk.cov["traces_validated_against_impl"] = chk.cov.get("traces_validated_against_impl", 0) + n_ok
    chk.cov["pipeline_scenarios"] = len(scns)


def c07_pipelines(chk, tier, explicit=None):
    """C07 where the process that cannot be created is a command of a pipeline: whatever the terminator, afterwards no
    child of the attempt is left as a zombie or running -- the process forked for the failing command never (detached or
    not), the commands started before it unless the pipeline was detached"""
    r = C.Rng(chk.seed * 11 + 7)
    tpls = explicit if explicit is not None else gen_c14(r, 90 if tier == "quick" else 0, tier)
    for i, t in enumerate(tpls):
        t["id"] = "c07-pl-%d" % i
    scns = [scenario_of(t) for t in tpls]
    e2.run_scenarios(scns, "C07pl")
    n_ok = 0
    for s in scns:
        t = s["tpl"]
        k = t["failk"]
        if s.get("timed_out") or s.get("rc") != 0:
            chk.violation("C07: a pipeline whose command %d cannot be started did not return [%s]" % (k, describe(t)), "pipeline\n" + tpl_to_json(t))
            continue
        bad = []
        res = out_field(s, "term")
        if res is None or not res.startswith("err"):
            bad.append("starting the pipeline returned %s although command %d cannot be started" % (res, k))
        z = zombies(s)
        if not t.get("detached") and z is not None and (z[0] or z[1]):
            bad.append("after the failed start %d zombie(s) and %d running child(ren) of the attempt remain" % z)
        zp = [int(x) for x in (out_field(s, "zombie_pids") or "").split(",") if x]
        fk = forks(s)
        if len(fk) > k and fk[k] in zp:
            bad.append("the process forked for the command that could not be started was left as a zombie%s" % (" (detached)" if t.get("detached") else ""))
        if bad:
            chk.violation("C07: %s [%s]" % ("; ".join(bad), describe(t)), "pipeline\n" + tpl_to_json(t))
        else:
            n_ok += 1
    chk.cov["evaluations"] = chk.cov.get("evaluations", 0) + len(scns)
    chk.cov["traces_validated_against_impl"] = chk.cov.get("traces_validated_against_impl", 0) + n_ok
    chk.cov["pipeline_scenarios"] = len(scns)


def c09_real(chk, tier, explicit=None):
    """C09 on real processes: children that exit with every code / die of every fatal signal; the status join() and
    capture() report is compared with the cause (the property's words) and with Lib/Status.v applied to the raw status
    the kernel handed to waitpid (the tie of decode_exit_status to real wait statuses); the options passed to
    waitpid must be the two the model knows (none, WNOHANG)"""
    if explicit is not None:
        tpls = explicit
    else:
        codes = list(range(256)) if tier != "quick" else [0, 1, 2, 3, 9, 15, 42, 100, 126, 127, 128, 129, 137, 143, 200, 254, 255]
        sigs = [1, 2, 3, 4, 5, 6, 7, 8, 9, 10, 11, 12, 13, 14, 15, 16, 24, 25, 26, 27, 30, 31, 34, 35, 50, 64]
        if tier == "quick":
            sigs = [1, 2, 3, 6, 9, 11, 13, 14, 15, 31, 34, 64]
        tpls = []
        q = 0
        for term in ("join", "capture"):
            for c in codes:
                tpls.append({"id": "c09r-%d" % q, "kind": "handle", "n": 1, "term": term, "stub": [["exit %d" % c]], "want": "exited:%d" % c, "watchdog": 10})
                q += 1
            for g in sigs:
                tpls.append({"id": "c09r-%d" % q, "kind": "handle", "n": 1, "term": term, "stub": [["raise %d" % g, "exit 99"]], "want": "signaled:%d" % g, "watchdog": 10})
                q += 1
    if explicit is None:
        # the same through a detached command: capture() still reports the real status, after the child is gone
        for c in (0, 7, 255):
            tpls.append({"id": "c09r-%d" % q, "kind": "handle", "n": 1, "term": "capture", "detached": True,
                         "stub": [["write 1 10", "close 1", "close 2", "sleep 400", "exit %d" % c]], "want": "exited:%d" % c, "watchdog": 10})
            q += 1
        tpls.append({"id": "c09r-%d" % q, "kind": "handle", "n": 1, "term": "capture", "detached": True,
                     "stub": [["close 1", "close 2", "sleep 300", "raise 15", "exit 99"]], "want": "signaled:15", "watchdog": 10})
        q += 1
    scns = [scenario_of(t) for t in tpls]
    e2.run_scenarios(scns, "C09real")
    raws, idx = [], []
    n_ok = 0
    for s in scns:
        t = s["tpl"]
        what = "%s %s of a child that does '%s'" % (t["id"], t["term"], t["stub"][0][0])
        if s.get("timed_out") or s.get("rc") != 0:
            chk.violation("C09: the wait for a real child did not complete [%s]" % what, "real\n" + tpl_to_json(t))
            continue
        res = out_field(s, "term") or ""
        got = kv_of(res).get("status")
        bad = []
        if not res.startswith("ok") or got != t["want"]:
            bad.append("reported %s, the child's real termination cause is %s" % (res[:80], t["want"]))
        raw = None
        for ln in parent_log(s):
            p = ln.split()
            if p[0] == "waitpid":
                if int(p[2]) not in (0, 1):
                    bad.append("waitpid was called with options %s (the model knows none and WNOHANG)" % p[2])
                m = re.search(r"st=(-?\d+)", ln)
                if m:
                    raw = int(m.group(1)) & 0xffffffff
        if raw is None:
            bad.append("no waitpid of the library collected the child")
        else:
            raws.append(raw)
            idx.append((s, got))
        if bad:
            chk.violation("C09: %s [%s]" % ("; ".join(bad), what), "real\n" + tpl_to_json(t))
        else:
            n_ok += 1
    ties = []
    for (s, got), ml in zip(idx, X.sppure(["status %d" % r_ for r_ in raws]) if raws else []):
        if got is not None and ml.strip() != got:
            ties.append("raw status %s: implementation %s, Lib/Status.v %s" % (s["id"], got, ml.strip()))
    if ties:
        chk.tie_broken("E2 (real wait statuses): %d of %d disagree with Lib/Status.v; e.g. %s" % (len(ties), len(raws), ties[0]))
    chk.cov["evaluations"] = chk.cov.get("evaluations", 0) + len(scns)
    chk.cov["traces_validated_against_impl"] = chk.cov.get("traces_validated_against_impl", 0) + n_ok - len(ties)
    chk.cov["real_process_statuses"] = len(scns)


def c10_real(chk, tier, explicit=None):
    """C10 on real processes: every signalling call on a live child issues exactly one kill(2) whose target is the
    child's process id -- a positive pid, never a process group or another process -- with the requested signal,
    whatever the launch options (fresh process group, detached); after termination was observed, none"""
    if explicit is not None:
        tpls = explicit
    else:
        tpls = []
        q = 0
        seqs = ["term", "kill", "sig10", "sig0", "sig18", "sig271,sig65545,sig0,term", "sig10,sig12,term", "sig0,poll,sig10", "term,wait,term,kill,sig10", "kill,wait,sig15", "sig19,sig18,term"]
        if tier != "quick":
            seqs += ["sig%d" % g for g in (1, 2, 3, 13, 14, 15, 17, 23, 28, 34, 64)] + ["sig0,poll,sig18,poll,kill,wait,kill"]
        for setpgid in (False, True):
            for det in (False, True):
                for sq in seqs:
                    tpls.append({"id": "c10r-%d" % q, "setpgid": setpgid, "detached": det, "seq": sq})
                    q += 1
    scns = []
    for t in tpls:
        spec = ["kind create", "argv STUB,%s" % e2.hexs("x"), "stdin none", "stdout none", "stderr none"]
        if t["setpgid"]:
            spec.append("setpgid 1")
        if t["detached"]:
            spec.append("detached 1")
        # the child ignores the catchable signals used here and sleeps: it stays alive until it is told otherwise
        spec += ["stubcfg hold", "after signals:%s" % t["seq"], "log_after 1", "settle_ms 30"]
        scns.append({"id": t["id"], "tpl": t, "spec": spec, "files": {}, "collect": [], "timeout": 15})
    e2.run_scenarios(scns, "C10real")
    n_ok = 0
    for s in scns:
        t = s["tpl"]
        what = "%s setpgid=%s detached=%s calls=%s" % (t["id"], t["setpgid"], t["detached"], t["seq"])
        if s.get("timed_out") or s.get("rc") != 0:
            chk.violation("C10: the scenario with a real child did not complete [%s] %s" % (what, s.get("stderr", "")[-200:].replace("\n", " ")), "real\n" + tpl_to_json(t))
            continue
        fk = forks(s)
        if not fk:
            chk.violation("C10: no child was started [%s]" % what, "real\n" + tpl_to_json(t))
            continue
        pid = fk[0]
        plog = parent_log(s)
        end = next((i for i, l in enumerate(plog) if l.startswith("mark cleanup")), len(plog))
        kills = []
        for ln in plog[:end]:
            p = ln.split()
            if p[0] == "kill":
                kills.append((int(p[1]), int(p[2])))
        want = []
        observed = False
        sigdies = {15: True, 9: True, 10: True, 12: True, 1: True, 2: True, 3: True, 13: True, 14: True, 34: True, 64: True}
        dead = False
        for op in t["seq"].split(","):
            if op in ("poll", "wait"):
                if dead or op == "wait":
                    observed = True
                continue
            sig = 15 if op == "term" else 9 if op == "kill" else int(op[3:])
            if not observed:
                want.append((pid, sig))
                if sig in sigdies:
                    dead = True
        bad = []
        # (the sequences poll only while the child is alive and wait only after a fatal signal: no race in what is expected)
        if kills != want:
            bad.append("kill(2) calls %s, expected %s (target = the child's pid %d, one call per signalling call while the child is not known to have terminated)" % (kills, want, pid))
        if any(k[0] != pid for k in kills):
            bad.append("a signal was sent to %s, which is not the child's process id %d" % ([k[0] for k in kills if k[0] != pid], pid))
        if bad:
            chk.violation("C10: %s [%s]" % ("; ".join(bad), what), "real\n" + tpl_to_json(t))
        else:
            n_ok += 1
    chk.cov["evaluations"] = chk.cov.get("evaluations", 0) + len(scns)
    chk.cov["traces_validated_against_impl"] = chk.cov.get("traces_validated_against_impl", 0) + n_ok
    chk.cov["real_process_signalling"] = len(scns)


def c14_fd_exhaustion(chk, tier, explicit=None):
    """C14 where a command cannot be started because a descriptor cannot be allocated: the k-th pipe() / fcntl() of the
    whole pipeline start fails with EMFILE, for every k the start reaches -- the call returns that error promptly, the
    commands already started are released and reaped, nothing of the attempt stays open"""
    if explicit is not None:
        tpls = explicit
    else:
        tpls = []
        q = 0
        for n in (3, 4):
            for term, pin, extra in (("capture", "data", {}), ("stream_stdin", "none", {"pstdout": "null"}), ("popen", "none", {"stderr_to": True, "pstdout": "null"}),
                                     ("join", "file", {"stderr_to": True, "pstdout": "null"})):
                for kind, ks in (("pipe", range(2, 2 * n + 2)), ("fcntl", range(3, 8 * n)), ("dupfd", range(1, n + 1))):
                    for k in ks:
                        t = {"id": "c14-fd-%d" % q, "kind": "pipeline", "n": n, "term": term, "pstdin": pin, "shape": "left", "after": "drop",
                             "stub": [["cat", "exit 0"]] * n, "fault": [kind, k, 24], "watchdog": 12}
                        if pin == "data":
                            t["data"] = b"some input\n"
                        if pin == "file":
                            t["filedata"] = b"file input\n"
                        t.update(extra)
                        tpls.append(t)
                        q += 1
    scns = []
    for t in tpls:
        s = scenario_of(t)
        s["spec"] = s["spec"] + ["fault %s %d %d parent" % (t["fault"][0], t["fault"][1], t["fault"][2])]
        scns.append(s)
    e2.run_scenarios(scns, "C14fd")
    n_ok = 0
    reached = 0
    for s in scns:
        t = s["tpl"]
        what = "%s %s n=%d stdin=%s: the %d-th %s() of the start fails with EMFILE" % (t["id"], t["term"], t["n"], t["pstdin"], t["fault"][1], t["fault"][0])
        replay = "fdexhaust\n" + tpl_to_json(t)
        if s.get("timed_out"):
            chk.violation("C14: the call never returned (watchdog %ss) [%s]" % (s["timeout"], what), replay)
            continue
        if s.get("rc") != 0:
            chk.violation("C14: the scenario process failed (rc=%s) [%s] %s" % (s.get("rc"), what, s.get("stderr", "")[-200:].replace("\n", " ")), replay)
            continue
        res = out_field(s, "term") or ""
        bad = []
        if res.startswith("err"):
            reached += 1
            if not res.startswith("err io:24"):
                bad.append("returned %s, expected the error of the failing allocation (EMFILE)" % res)
            z = zombies(s)
            if z is not None and (z[0] or z[1]):
                bad.append("after the failed start %d zombie(s) and %d running command(s) of the attempt remain" % z)
            before = after = None
            for ln in s["out"]:
                if ln.startswith("fds_before "):
                    before = sorted(e2.parse_fdtable(ln))
                elif ln.startswith("fds_after "):
                    after = sorted(e2.parse_fdtable(ln))
            if before is not None and after is not None and before != after:
                bad.append("descriptors of the attempt remain open in the parent: before=%s after=%s" % (before, after))
        elif not res.startswith("ok"):
            bad.append("the terminator reported %r" % res)
        if bad:
            chk.violation("C14: %s [%s]" % ("; ".join(bad), what), replay)
        else:
            n_ok += 1
    chk.cov["evaluations"] = chk.cov.get("evaluations", 0) + len(scns)
    chk.cov["traces_validated_against_impl"] = chk.cov.get("traces_validated_against_impl", 0) + n_ok
    chk.cov["fd_exhaustion_scenarios"] = len(scns)
    chk.cov["fd_exhaustion_reached"] = reached


def gen_c01_real(tier):
    """communicate-style exchanges with real processes: the consumer of a pipeline leaves early, a command does not
    read (all of) the input it is fed, outputs alternate between the streams above the pipe capacity"""
    sizes = (1, 4096, 65536, 65537, 70000, 140000, 300000) if tier == "quick" else (1, 4095, 4096, 4097, 65535, 65536, 65537, 70000, 131072, 140000, 300000, 1000000)
    out = []
    q = 0
    for term in ("capture", "communicate"):
        for n in (2, 3):
            for sz in sizes:
                kids = [["write 1 %d" % sz, "exit 0"]] + [["streamcat <T>", "exit 0"]] * (n - 2) + [["readn 1", "exit 0"]]
                out.append({"id": "c01r-%d" % q, "kind": "pipeline", "n": n, "term": term, "shape": "left", "stub": kids,
                            "what": "producer of %d bytes | ... | consumer that reads 1 byte and leaves" % sz, "watchdog": 10})
                q += 1
        # a single command that is fed more than it reads
        for sz in sizes:
            for k in (0, 1, 5000):
                if k > sz:
                    continue
                out.append({"id": "c01r-%d" % q, "kind": "handle", "n": 1, "term": term, "pstdin": "data", "data": b"d" * sz,
                            "stub": [["readn %d" % k, "write 1 %d" % min(sz, 70000), "exit 0"]],
                            "what": "input of %d bytes, the child reads %d, writes, exits" % (sz, k), "watchdog": 10})
                q += 1
        # the child closes its streams early and lingers: the exchange ends when the streams are closed, not when the
        # process is gone (the child itself must not be left holding other copies of its pipe ends)
        if term == "communicate":
            for kids, data in ((["write 1 100", "write 2 50", "close 1", "close 2", "sleep 2500", "exit 0"], None),
                               (["close 0", "write 1 100", "close 1", "close 2", "sleep 2500", "exit 0"], b"d" * 1000000),
                               (["readn 10", "close 0", "close 1", "close 2", "sleep 2500", "exit 0"], b"d" * 300000)):
                t = {"id": "c01r-%d" % q, "kind": "handle", "n": 1, "term": term, "stub": [kids],
                     "what": "the child does %s" % "; ".join(kids), "watchdog": 10, "prompt_ms": 1500}
                if data is not None:
                    t["pstdin"], t["data"] = "data", data
                out.append(t)
                q += 1
        # the child closes its stdin unread and then writes more than a pipe holds: the exchange fails with EPIPE while
        # output is pending -- whatever is done next (capture waits for the child) must not leave that output unread
        for outsz in (70000, 300000):
            out.append({"id": "c01r-%d" % q, "kind": "handle", "n": 1, "term": term, "pstdin": "data", "data": b"d" * 300000,
                        "stub": [["close 0", "write 1 %d" % outsz, "write 2 %d" % outsz, "exit 0"]],
                        "what": "the child closes stdin unread, then writes %d bytes to each output" % outsz, "watchdog": 10})
            q += 1
        # both outputs above the pipe capacity, alternating, while input is pending
        for order in ((1, 2), (2, 1)):
            out.append({"id": "c01r-%d" % q, "kind": "handle", "n": 1, "term": term, "pstdin": "data", "data": b"d" * 200000,
                        "stub": [["write %d 150000" % order[0], "write %d 150000" % order[1], "readeof", "write %d 70000" % order[0], "exit 0"]],
                        "what": "child writes 150000 to %d, then to %d, then reads 200000 bytes of input, writes again" % order, "watchdog": 10})
            q += 1
    return out


def c01_real(chk, tier, explicit=None):
    """C01 on real processes: the exchange finishes whatever the children do with their ends -- in particular when a
    pipeline's consumer leaves early (the producer must get SIGPIPE/EPIPE, which it does only if nobody else holds a
    read end of the pipe between them)"""
    tpls = explicit if explicit is not None else gen_c01_real(tier)
    scns = [scenario_of(t) for t in tpls]
    e2.run_scenarios(scns, "C01real")
    n_ok = 0
    for s in scns:
        t = s["tpl"]
        what = "%s %s: %s" % (t["id"], t["term"], t["what"])
        if s.get("timed_out"):
            chk.violation("C01: HANG: the exchange with real processes did not finish within %ss [%s]" % (s["timeout"], what), "real\n" + tpl_to_json(t))
            continue
        res = out_field(s, "term")
        if s.get("rc") != 0 or res is None:
            chk.violation("C01: the scenario process failed (rc=%s) [%s] %s" % (s.get("rc"), what, s.get("stderr", "")[-200:].replace("\n", " ")), "real\n" + tpl_to_json(t))
            continue
        if not (res.startswith("ok") or res.startswith("err io:32")):
            chk.violation("C01: the exchange returned %s [%s]" % (res, what), "real\n" + tpl_to_json(t))
            continue
        ms = out_field(s, "term_ms")
        if ms is not None and t.get("prompt_ms") and int(ms) > t["prompt_ms"]:
            chk.violation("C01: the child had closed its streams at once, yet the exchange returned only after %s ms (when the process was gone) [%s]" % (ms, what), "real\n" + tpl_to_json(t))
            continue
        if ms is not None and int(ms) > 5000:
            chk.violation("C01: the exchange needed %s ms although every child had finished or closed its streams long before [%s]" % (ms, what), "real\n" + tpl_to_json(t))
            continue
        n_ok += 1
    chk.cov["evaluations"] = chk.cov.get("evaluations", 0) + len(scns)
    chk.cov["traces_validated_against_impl"] = chk.cov.get("traces_validated_against_impl", 0) + n_ok
    chk.cov["real_process_exchanges"] = len(scns)


def c08_replay(chk, text):
    t = tpl_from_json(text)
    s = scenario_of(t)
    e2.run_scenarios([s], "C08pl")
    if s.get("timed_out") or s.get("rc") != 0:
        chk.violation("C08: pipeline scenario did not complete [%s]" % describe(t), tpl_to_json(t))
        return
    ml = X.sppure([model_pipeline(t)])[0]
    head, launches = parse_model(ml)
    waits, pid_stage = pipe_labels(s, launches, t["term"] in ("capture", "communicate"))
    for i, rp in sorted(child_reports(s, pid_stage).items()):
        extra = [k for k in rp["fds"] if k > 2]
        if extra:
            chk.violation("C08: stage %d holds descriptors %s beyond 0,1,2 [%s]" % (i, extra, describe(t)), tpl_to_json(t))
    ms = out_field(s, "term_ms")
    if t.get("linger") and ms is not None and int(ms) > 1000:
        chk.violation("C08: end-of-file on the captured streams arrived only after %s ms [%s]" % (ms, describe(t)), tpl_to_json(t))


def c08_threads(chk, tier):
    """two threads launching concurrently under a fixed schedule: thread A (stdin and stdout piped) is held right
    before its fork while thread B performs a complete launch; B's child must not hold A's pipe ends (F9)"""
    scns = []
    for i in range(3 if tier == "quick" else 20):
        scns.append({"id": "c08-threads-%d" % i, "spec": ["kind threads", "schedule a-in-flight",
                     "stubcfg @a readeof;@a write 1 5;@a exit 0;@b sleep 700;@b exit 0", "path " + e2.hexs(b"/usr/bin:/bin")], "timeout": 20})
    e2.run_scenarios(scns, "C08thr")
    for s in scns:
        replay = "threads a-in-flight"
        if s.get("timed_out") or s.get("rc") != 0:
            chk.violation("C08: [threads a-in-flight] the scenario did not complete", replay)
            continue
        reps = {e2.parse_report(t).get("argv", [b"", b"?"])[1]: e2.parse_report(t) for t in s["reps"].values()}
        b = reps.get(b"b")
        a = reps.get(b"a")
        if a is None or b is None:
            chk.violation("C08: [threads a-in-flight] a child did not report", replay)
            continue
        a_pipes = {e["ino"] for k, e in a["fds"].items() if k in (0, 1) and e["target"].startswith("pipe:")}
        extra = [k for k, e in b["fds"].items() if k > 2 and e["ino"] in a_pipes]
        other = [k for k, e in b["fds"].items() if k > 2 and e["ino"] not in a_pipes]
        eof = out_field(s, "thread a eof_ms")
        if extra:
            chk.violation("C08: [threads a-in-flight] the child of thread B holds descriptors %s, ends of the pipes of a launch in flight on another thread; "
                          "end-of-file on A's output arrived after %s ms (B's child lives 700 ms)" % (extra, eof), replay)
        if other:
            chk.violation("C08: [threads a-in-flight] the child of thread B holds descriptors %s beyond 0,1,2: %s" % (other, [b["fds"][k]["target"] for k in other]), replay)
    chk.cov["evaluations"] = chk.cov.get("evaluations", 0) + len(scns)
    chk.cov["thread_scenarios"] = len(scns)
