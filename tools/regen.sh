#!/bin/sh
# regenerate evidence on the clean tree for the listed properties (or all claimed ones)
cd /verif
if [ -n "$(git -C /repo status --porcelain)" ]; then echo "/repo is not clean"; exit 2; fi
python3 tools/params.py >/dev/null
PROPS="$@"
[ -z "$PROPS" ] && PROPS=$(python3 -c "import json;print(' '.join(c['property_id'] for c in json.load(open('MANIFEST.json'))['checks']))")
for p in $PROPS; do ./check $p 2>&1 | tail -1; done
