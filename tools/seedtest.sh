#!/bin/sh
# usage: seedtest.sh <Cxx> <patch> : apply a seeded change to /repo, run the property's quick check, undo, regenerate params
P=$1; PATCH=$2
cd /repo && git apply "$PATCH" || { echo "patch does not apply"; exit 2; }
cd /verif && timeout 1500 ./check $P > /tmp/seed_$P.out 2>&1; rc=$?
cd /repo && git checkout -- . && cd /verif && python3 tools/params.py >/dev/null
echo "check $P rc=$rc"; grep -E "^VIOLATION|violation:|TIE BROKEN|PROOF OBL" /tmp/seed_$P.out | head -5 | cut -c1-300
