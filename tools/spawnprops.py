"""Checks of the single-spawn family on engine E2: C05 (redirection wiring), C07 (Popen iff started,
failed launches leave nothing), C08 (no pipe end leaks), C18 (clean signal state)."""
import json
import os

import common as C
import e2

STREAMS = ["stdin", "stdout", "stderr"]
ENOENT, EACCES, EMFILE, EBADF, EAGAIN, EPERM, ENOTDIR = 2, 13, 24, 9, 11, 1, 20


def redir_spec(idx, kind):
    if kind in ("none", "pipe", "merge"):
        return kind
    if kind.startswith("file"):
        return "file:$WD/" + ("in%d.txt" % idx if idx == 0 else "out%d.txt" % idx)
    if kind.startswith("rc"):
        return "rcfile:%s:$WD/shared%s.txt" % (kind[2:], kind[2:])
    raise ValueError(kind)


def mk_scenario(sid, cfg, fault=None, exec_fail=False, stubcfg="exit 0", mask=None, sigpipe=None, after="wait", in_thread=False):
    spec = ["kind create"]
    argv0 = "/nonexistent-dir/prog" if exec_fail else "STUB"
    spec.append("argv %s,%s" % (argv0 if argv0 == "STUB" else e2.hexs(argv0), e2.hexs("x")))
    for i, st in enumerate(STREAMS):
        spec.append("%s %s" % (st, redir_spec(i, cfg[st])))
    if cfg.get("detached"):
        spec.append("detached 1")
    if cfg.get("cwd"):
        spec.append("cwd %s" % e2.hexs(cfg["cwd_path"]))
    if cfg.get("setuid"):
        spec.append("setuid %d" % cfg.get("uid", 0))
    if cfg.get("setgid"):
        spec.append("setgid %d" % cfg.get("gid", 0))
    if cfg.get("setpgid"):
        spec.append("setpgid 1")
    if fault:
        spec.append("fault %s %d %d %s" % (fault[0], fault[1], fault[2], "child" if fault[3] else "parent"))
    if mask is not None:
        spec.append("mask %s" % mask)
    if sigpipe:
        spec.append("sigpipe %s" % sigpipe)
    if in_thread:
        spec.append("in_thread 1")
    spec.append("stubcfg %s" % stubcfg)
    spec.append("after %s" % after)
    files = {"in0.txt": b"input-file\n", "shared0.txt": b"", "shared1.txt": b"", "shared2.txt": b""}
    return {"id": sid, "cfg": cfg, "fault": fault, "exec_fail": exec_fail, "spec": spec, "files": files,
            "mask": mask, "sigpipe": sigpipe}


KINDS_IN = ["none", "pipe", "file0", "rc0", "rc1"]
KINDS_OUT = ["none", "pipe", "merge", "file1", "rc0", "rc1"]
KINDS_ERR = ["none", "pipe", "merge", "file2", "rc0", "rc1", "rc2"]


def all_configs():
    for a in KINDS_IN + ["merge"]:
        for b in KINDS_OUT:
            for c in KINDS_ERR:
                yield {"stdin": a, "stdout": b, "stderr": c}


def fault_points(cfg):
    """every injection point that this configuration can reach"""
    invalid = cfg["stdin"] == "merge" or (cfg["stdout"] == "merge" and cfg["stderr"] == "merge")
    # (an invalid combination is refused right after the launch-status pipe: no stream pipe is ever made)
    npipes = 1 + (0 if invalid else sum(1 for s in STREAMS if cfg[s] == "pipe"))
    pts = [("pipe", k, EMFILE, False) for k in range(1, npipes + 1)]
    pts += [("fcntl", k, EBADF, False) for k in range(1, 2 * (npipes + 1) + 1)]
    pts += [("fork", 1, EAGAIN, False)]
    ndup = sum(1 for s in STREAMS if cfg[s] != "none")
    pts += [("dup2", k, EBADF, True) for k in range(1, ndup + 1)]
    # (a failing pthread_sigmask returns a positive error number, which the code's check_err does not treat as a
    #  failure: it is not one of the property's failing steps and is exercised as a non-fatal fault)
    pts += [("sigmask", 1, 22, True), ("signal", 1, 22, True), ("exec", 1, EACCES, True), ("exec", 1, ENOENT, True)]
    if cfg.get("cwd"):
        pts.append(("chdir", 1, ENOTDIR, True))
    if cfg.get("setuid"):
        pts.append(("setuid", 1, EPERM, True))
    if cfg.get("setgid"):
        pts.append(("setgid", 1, EPERM, True))
    if cfg.get("setpgid"):
        pts.append(("setpgid", 1, EPERM, True))
    return pts


def user_fd_map(s):
    """real fd numbers of the caller's files -> model atoms"""
    m = {}
    file_streams = [i for i, st in enumerate(STREAMS) if s["cfg"][st].startswith("file")]
    k = 0
    for ln in s["out"]:
        if ln.startswith("result "):
            break                       # (a relaunch of the same process opens its files again)
        if ln.startswith("userfd file "):
            m[int(ln.split()[2])] = 2000 + file_streams[k]
            k += 1
        elif ln.startswith("userfd rc"):
            p = ln.split()
            m[int(p[2])] = 2000 + 100 + int(p[1][2:])
    return m


def result_of(s):
    for ln in s["out"]:
        if ln.startswith("result "):
            return ln[7:]
    return None


def model_result(r):
    if r == [0]:
        return "ok"
    if r[0] == 1:
        return "err io:%d" % r[1]
    return "err logic"


def conformance(chk, scns, tag):
    """compare every logged call sequence with the model's; returns number of divergences"""
    items = []
    for s in scns:
        c = dict(s["cfg"])
        c["ncand"] = 1
        items.append((c, s["fault"], [ENOENT if s["exec_fail"] else None]))
    sums = []
    for i in range(0, len(items), 400):
        sums += e2.model_summaries("%s_%d" % (tag, i), items[i:i + 400])
    ndiv = 0
    for s, sm in zip(scns, sums):
        res_m, par_m, chi_m, ptab_m, ctab_m, pop_m = sm
        s["model"] = sm
        if s.get("timed_out") or s.get("rc") != 0:
            chk.tie_broken("E2: scenario %s did not complete (rc=%s timed_out=%s) %s" % (s["id"], s.get("rc"), s.get("timed_out"), s.get("stderr", "")[-300:]))
            ndiv += 1
            continue
        fm = e2.FdMap(user_fd_map(s))
        plog = s["logs"].get(s["parent_pid"], [])
        ri = next((i for i, l in enumerate(plog) if l.startswith("mark relaunch")), None)
        if ri is not None:
            plog = plog[:ri]           # what follows belongs to the second launch of the same process (C18)
        par_r, _, _ = e2.encode_log(plog, fm, False)
        first = [int(l.split("=")[1].split()[0]) for l in plog if l.startswith("fork = ") and int(l.split("=")[1].split()[0]) > 0]
        cpids = [p for p in s["logs"] if p != s["parent_pid"]]
        if first and first[0] in s["logs"]:
            cpids = [first[0]]
        chi_r, allocs, execs = ([], [], [])
        if cpids:
            chi_r, allocs, execs = e2.encode_log(s["logs"][cpids[0]], fm, True)
        s["child_allocs"] = allocs
        s["execs"] = execs
        rr = result_of(s) or "?"
        mr = model_result(res_m)
        real_res = rr if not rr.startswith("err logic") else "err logic"
        div = None
        if par_r != [list(x) for x in par_m]:
            k = next((i for i, (a, b) in enumerate(zip(par_r, par_m)) if a != list(b)), min(len(par_r), len(par_m)))
            div = "E2:Spawn parent call#%d: real=%s model=%s" % (k + 1, par_r[k] if k < len(par_r) else "<end>", list(par_m[k]) if k < len(par_m) else "<end>")
        elif chi_r != [list(x) for x in chi_m]:
            k = next((i for i, (a, b) in enumerate(zip(chi_r, chi_m)) if a != list(b)), min(len(chi_r), len(chi_m)))
            div = "E2:Spawn child call#%d: real=%s model=%s" % (k + 1, chi_r[k] if k < len(chi_r) else "<end>", list(chi_m[k]) if k < len(chi_m) else "<end>")
        elif real_res != mr:
            div = "E2:Spawn result: real=%s model=%s" % (rr, mr)
        s["div"] = div
        if div:
            ndiv += 1
    return ndiv


def inheritable_before(s):
    for ln in s["out"]:
        if ln.startswith("fds_before "):
            return e2.parse_fdtable(ln)
    return {}


def table(s, tag):
    for ln in s["out"]:
        if ln.startswith(tag + " "):
            return e2.parse_fdtable(ln)
    return None


def child_report(s):
    if not s["reps"]:
        return None
    plog = s["logs"].get(s["parent_pid"], [])
    first = [int(l.split("=")[1].split()[0]) for l in plog if l.startswith("fork = ") and int(l.split("=")[1].split()[0]) > 0]
    if first and first[0] in s["reps"]:
        return e2.parse_report(s["reps"][first[0]])
    return e2.parse_report(list(s["reps"].values())[0])


def judge(pid, s, chk):
    """property monitors on what the real code did in this scenario"""
    cfg = s["cfg"]
    res = result_of(s)
    before = inheritable_before(s)
    after = table(s, "fds_after") or {}
    rep = child_report(s)
    plog = s["logs"].get(s["parent_pid"], [])
    plog_all = plog
    forked = any(l.startswith("fork = ") and not l.startswith("fork = -1") for l in plog)
    rtext = "\n".join(s["spec"])

    def bad(msg):
        chk.violation("[%s %s/%s/%s%s%s] %s" % (s["id"], cfg["stdin"], cfg["stdout"], cfg["stderr"],
                                                 " fault=%s" % (s["fault"],) if s["fault"] else "",
                                                 " exec-fails" if s["exec_fail"] else "", msg), rtext)

    invalid = cfg["stdin"] == "merge" or (cfg["stdout"] == "merge" and cfg["stderr"] == "merge")
    if pid == "C05":
        if invalid:
            if not (res or "").startswith("err logic"):
                bad("invalid combination was not refused with a logic error (result %s)" % res)
            if forked:
                bad("a process was started for an invalid combination")
        if not invalid and res != "ok" and not s["fault"] and not s["exec_fail"]:
            bad("a valid combination of redirections was refused: %s" % res)
        if s.get("relaunch_stderr"):
            ri = next((i for i, l in enumerate(plog_all) if l.startswith("mark relaunch")), None)
            pid2 = None
            if ri is not None:
                for ln in plog_all[ri:]:
                    if ln.startswith("fork = ") and int(ln.split("=")[1].split()[0]) > 0:
                        pid2 = int(ln.split("=")[1].split()[0])
                        break
            rep2 = e2.parse_report(s["reps"][pid2]) if pid2 in s.get("reps", {}) else None
            if rep2 is None:
                bad("second launch (after the parent re-pointed its standard error): no self-report from the child")
            else:
                for i in ((1, 2) if cfg["stdout"] == "merge" else (2,)):
                    tg = rep2["fds"].get(i, {}).get("target", "")
                    if not tg.endswith("/err2.txt"):
                        bad("second launch by the same thread, after the parent re-pointed its standard error to err2.txt: the child's descriptor %d is %s" % (i, tg))
        # the parent's own standard streams are never touched
        for i in (0, 1, 2):
            if i == 2 and s.get("relaunch_stderr"):
                continue                 # (the scenario itself re-points the parent's standard error)
            if before.get(i) != after.get(i):
                bad("parent's descriptor %d changed: %s -> %s" % (i, before.get(i), after.get(i)))
        if any(l.startswith("close %d " % i) for l in plog for i in (0, 1, 2)):
            bad("the parent closed one of its standard streams")
        if res == "ok" and rep is not None and not invalid:
            fields = {}
            for ln in s["out"]:
                if ln.startswith("fields "):
                    fields = {a.split("=")[0]: int(a.split("=")[1]) for a in ln.split()[1:]}
            running = table(s, "fds_running") or {}
            for i, st in enumerate(STREAMS):
                kind = cfg[st]
                if (fields.get(st, -1) >= 0) != (kind == "pipe"):
                    bad("Popen.%s is %s but the stream was configured as %s" % (st, "Some" if fields.get(st, -1) >= 0 else "None", kind))
                got = rep["fds"].get(i)
                if got is None:
                    bad("child has no descriptor %d" % i)
                    continue
                if kind == "none":
                    want = before.get(i, (None,))[0]
                    if got["target"] != want:
                        bad("child's %s is %s, not the parent's own stream %s" % (st, got["target"], want))
                elif kind == "pipe":
                    pe = running.get(fields.get(st, -1), (None,))[0]
                    if got["target"] != pe or not got["target"].startswith("pipe:"):
                        bad("child's %s (%s) is not the peer of the Popen's pipe end (%s)" % (st, got["target"], pe))
                elif kind.startswith("file") or kind.startswith("rc"):
                    name = ("in0.txt" if kind == "file0" else "out%s.txt" % kind[4:]) if kind.startswith("file") else "shared%s.txt" % kind[2:]
                    if not got["target"].endswith("/" + name):
                        bad("child's %s is %s, not the file %s that was passed" % (st, got["target"], name))
                elif kind == "merge":
                    other = 1 if i == 2 else 2
                    o = rep["fds"].get(other)
                    if o is None or (o["target"], o["ino"]) != (got["target"], got["ino"]):
                        bad("child's %s (%s) is not the same open file as its %s (%s)" % (st, got["target"], STREAMS[other], o and o["target"]))
    elif pid == "C07":
        started = bool(s.get("execs")) and s["execs"][-1]["errno"] is None
        if (res == "ok") != started:
            bad("result is %s but the program image was %sstarted" % (res, "" if started else "not "))
        if res and res.startswith("err") and not invalid:
            # the error is the OS error of the step that failed
            want = None
            if s["fault"] and s["fault"][0] != "sigmask":
                want = s["fault"][2]
            elif s["exec_fail"]:
                want = ENOENT
            if want is not None and res != "err io:%d" % want:
                bad("launch failed with %s, expected the error of the failing step (errno %d)" % (res, want))
            if after != before:
                bad("descriptors of the attempt remain open in the parent after the failure: before=%s after=%s" % (sorted(before), sorted(after)))
            for ln in s["out"]:
                if ln.startswith("zombies "):
                    z, running = int(ln.split()[1]), int(ln.split()[3])
                    if z or running:
                        bad("after the failed launch %d zombie(s) and %d running child(ren) of the attempt remain" % (z, running))
        if res == "ok":
            # the parent returned only after the outcome was known: it read the status pipe
            if not any(l.startswith("read ") and " 4 " in l for l in plog):
                bad("Popen::create returned Ok without having read the launch-status pipe")
    elif pid == "C08":
        if rep is not None:
            allowed = {0, 1, 2} | {fd for fd, (t, cx) in before.items() if not cx}
            extra = [fd for fd in rep["fds"] if fd not in allowed]
            # a caller-passed file may be inherited at its own number only if the caller made it inheritable
            if extra:
                bad("child holds descriptors %s (%s) beyond 0,1,2 and the parent's inheritable ones" % (
                    extra, [rep["fds"][f]["target"] for f in extra]))
    elif pid == "C18":
        if rep is not None and "sig" in rep:
            if rep["sig"]["blk"] != 0:
                bad("child started with blocked signals %x (spawning thread had mask %s)" % (rep["sig"]["blk"], s.get("mask")))
            if rep.get("sigpipe_at_start") != 0:
                bad("child started with SIGPIPE not at its default action (sa_handler=%s)" % rep.get("sigpipe_at_start"))
        elif res == "ok":
            bad("no self-report from the child")
        if s.get("relaunch"):
            # the second launch of the same process, after the parent's disposition / mask changed
            ri = next((i for i, l in enumerate(plog) if l.startswith("mark relaunch")), None)
            pid2 = None
            if ri is not None:
                for ln in plog[ri:]:
                    if ln.startswith("fork = ") and int(ln.split("=")[1].split()[0]) > 0:
                        pid2 = int(ln.split("=")[1].split()[0])
                        break
            rep2 = e2.parse_report(s["reps"][pid2]) if pid2 in s.get("reps", {}) else None
            if rep2 is None or "sig" not in rep2:
                bad("second launch (after the parent's SIGPIPE disposition became %s): no self-report from the child" % s["relaunch"][0])
            else:
                if rep2["sig"]["blk"] != 0:
                    bad("second launch: child started with blocked signals %x" % rep2["sig"]["blk"])
                if rep2.get("sigpipe_at_start") != 0:
                    bad("second launch of the same process, after the parent's SIGPIPE disposition became %s: child started with SIGPIPE not at its default action (sa_handler=%s)" % (
                        s["relaunch"][0], rep2.get("sigpipe_at_start")))


PLAN = {"C05": (1, 1), "C07": (1, 1), "C08": (1, 1), "C18": (1, 1)}


def scenarios_for(pid, tier, r):
    scns = []
    cfgs = list(all_configs())
    n = 0
    if pid == "C05":
        for c in cfgs:
            scns.append(mk_scenario("c05-%d" % n, c))
            n += 1
        # the same from a short-lived thread: whatever the launch cached per thread is gone afterwards, the
        # parent's own streams must still be there
        for c in cfgs:
            if "merge" in (c["stdout"], c["stderr"]) or tier == "thorough":
                scns.append(mk_scenario("c05-%d" % n, c, in_thread=True))
                n += 1
        # launched twice by the same thread, the parent re-pointing its own standard error in between: "the parent's
        # own stream" is the one it has at the time of the launch
        for c in ({"stdin": "none", "stdout": "merge", "stderr": "none"}, {"stdin": "none", "stdout": "none", "stderr": "none"},
                  {"stdin": "pipe", "stdout": "merge", "stderr": "none"}):
            for thr in (False, True):
                sc = mk_scenario("c05-%d" % n, dict(c), in_thread=thr)
                sc["spec"][-2:-2] = ["relaunch_stderr $WD/err2.txt"]
                sc["relaunch_stderr"] = True
                scns.append(sc)
                n += 1
        if tier == "thorough":
            for c in cfgs[::3]:
                cc = dict(c, setpgid=True)
                scns.append(mk_scenario("c05-%d" % n, cc))
                n += 1
    elif pid == "C07":
        pick = cfgs if tier == "thorough" else [c for i, c in enumerate(cfgs) if i % 11 == r.below(11)] + \
            [{"stdin": "pipe", "stdout": "pipe", "stderr": "pipe"}, {"stdin": "file0", "stdout": "pipe", "stderr": "merge"}]
        for c in pick:
            if c["stdin"] == "merge":
                continue
            for det in (False, True):
                cc = dict(c, detached=det, cwd=True, cwd_path="/", setuid=True, setgid=True, setpgid=True)
                for f in fault_points(cc):
                    if tier == "quick" and r.below(3) != 0 and f[0] in ("fcntl", "dup2"):
                        continue
                    scns.append(mk_scenario("c07-%d" % n, cc, fault=f))
                    n += 1
                scns.append(mk_scenario("c07-%d" % n, cc, exec_fail=True))
                n += 1
                scns.append(mk_scenario("c07-%d" % n, cc))
                n += 1
    elif pid == "C08":
        for c in cfgs:
            if c["stdin"] == "merge":
                continue
            scns.append(mk_scenario("c08-%d" % n, c))
            n += 1
    elif pid == "C18":
        masks = ["0000000000000000", "ffffffffffffffff", "0010000000000000", "0040000000000000",
                 # real-time signals only (34 and up), standard signals only
                 "0000000002000000", "000000001e000000", "00000000ffffffff", "0000000000000080", "ffffffff00000000", "0042000000000000"]
        for _ in range(60 if tier == "quick" else 600):
            masks.append("".join("%02x" % r.below(256) for _ in range(8)))
        some = [c for c in cfgs if c["stdin"] != "merge"]
        for i, m in enumerate(masks):
            c = some[r.below(len(some))]
            # (the other launch options take part too: nothing done after the reset may put a signal back into the mask)
            c = dict(c)
            if r.chance(1, 2):
                c["setpgid"] = True
            if r.chance(1, 4):
                c.update(cwd=True, cwd_path="/")
            if r.chance(1, 4):
                c.update(setuid=True, setgid=True)
            sc = mk_scenario("c18-%d" % n, c, mask=m, sigpipe=r.choice(["ign", "dfl"]))
            if i % 3 == 0 and "pipe" not in (c["stdin"], c["stdout"], c["stderr"]) and not (c["stdout"] == "merge" and c["stderr"] == "merge"):
                # launched twice in one process; in between the parent changes its SIGPIPE disposition and the mask
                d2 = "ign" if sc["sigpipe"] == "dfl" else "dfl"
                m2 = "".join("%02x" % r.below(256) for _ in range(8))
                sc["spec"][-2:-2] = ["relaunch_sigpipe %s" % d2, "relaunch_mask %s" % m2]
                sc["relaunch"] = (d2, m2)
            scns.append(sc)
            n += 1
    return scns


def c07_real_causes(chk, tier, explicit=None):
    """C07 with the failure causes the operating system really produces (no injection): a working directory that is a
    regular file / a device / missing / below a file / a symlink loop / over-long, a program that is missing / not
    executable / a directory / empty / garbage / below a file -- the error must carry that operating-system error,
    and afterwards no child of the attempt and no descriptor of the attempt may remain"""
    import os
    causes = [
        ("cwd is a regular file", {"cwd": "$WD/plain"}, 20), ("cwd is a device", {"cwd": "/dev/null"}, 20),
        ("cwd is missing", {"cwd": "$WD/nope"}, 2), ("cwd lies below a regular file", {"cwd": "$WD/plain/sub"}, 20),
        ("cwd is a symlink loop", {"cwd": "$WD/loop"}, 40), ("cwd has an over-long component", {"cwd": "$WD/" + "n" * 300}, 36),
        ("program is missing", {"prog": "$WD/nope"}, 2), ("program is not executable", {"prog": "$WD/plain"}, 13),
        ("program is a directory", {"prog": "$WD/adir"}, 13), ("program is an empty file", {"prog": "$WD/empty"}, 8),
        ("program is neither ELF nor script", {"prog": "$WD/garbage"}, 8), ("program lies below a regular file", {"prog": "$WD/plain/x"}, 20),
    ]
    tpls = explicit
    if tpls is None:
        tpls = []
        for ci in range(len(causes)):
            for streams in (("none", "none", "none"), ("pipe", "pipe", "pipe")):
                for det in (False, True):
                    tpls.append({"cause": ci, "streams": list(streams), "detached": det})
    scns = []
    for q, t in enumerate(tpls):
        name, what, errno = causes[t["cause"]]

        def specfn(wd, t=t, what=what):
            sub = lambda x: x.replace("$WD", wd)
            spec = ["kind create", "argv %s,%s" % (e2.hexs(sub(what["prog"])) if "prog" in what else "STUB", e2.hexs("x"))]
            for st, k in zip(STREAMS, t["streams"]):
                spec.append("%s %s" % (st, k))
            if "cwd" in what:
                spec.append("cwd %s" % e2.hexs(sub(what["cwd"])))
            if t["detached"]:
                spec.append("detached 1")
            spec += ["stubcfg exit 0", "after wait"]
            return spec
        scns.append({"id": "c07-os-%d" % q, "tpl": t, "specfn": specfn, "mkdirs": ["adir"],
                     "files": {"plain": b"plain file\n", "empty": b"", "garbage": b"neither ELF nor script\n"},
                     "modes": {"plain": 0o644, "empty": 0o755, "garbage": 0o755}, "symlinks": {"loop": "loop"}, "timeout": 20})
    e2.run_scenarios(scns, "C07os")
    n_ok = 0
    for s in scns:
        t = s["tpl"]
        name, what, errno = causes[t["cause"]]
        desc = "%s: %s, streams %s%s" % (s["id"], name, "/".join(t["streams"]), ", detached" if t["detached"] else "")
        replay = "oscause\n" + json.dumps(t, sort_keys=True)
        if s.get("timed_out") or s.get("rc") != 0:
            chk.violation("C07: the launch did not return [%s]" % desc, replay)
            continue
        res = result_of(s) or "?"
        bad = []
        if res != "err io:%d" % errno:
            bad.append("returned %s, expected the operating-system error %d of the step that failed" % (res, errno))
        zl = [ln for ln in s["out"] if ln.startswith("zombies ")]
        if zl and (int(zl[0].split()[1]) or int(zl[0].split()[3])):
            bad.append("after the failed launch %s" % zl[0])
        before = after = None
        for ln in s["out"]:
            if ln.startswith("fds_before "):
                before = sorted(e2.parse_fdtable(ln))
            elif ln.startswith("fds_after_err ") or ln.startswith("fds_after "):
                after = sorted(e2.parse_fdtable(ln))
        if before is not None and after is not None and before != after:
            bad.append("descriptors of the attempt remain open in the parent: before=%s after=%s" % (before, after))
        if bad:
            chk.violation("C07: %s [%s]" % ("; ".join(bad), desc), replay)
        else:
            n_ok += 1
    chk.cov["evaluations"] = chk.cov.get("evaluations", 0) + len(scns)
    chk.cov["traces_validated_against_impl"] = chk.cov.get("traces_validated_against_impl", 0) + n_ok
    chk.cov["real_failure_causes"] = len(scns)


DEPS = ["theories/Proofs/SpawnProofs.vo", "theories/Proofs/SigProofs.vo"]


def run(chk, tier, pid, explicit=None):
    r = C.Rng(chk.seed * 7919 + int(pid[1:]))
    chk.cov["trusted_base"] = C.BASE_TRUSTED + [
        "harness/src/bin/realdrive.rs: logging/fault-injecting libc interposers, allocator probe; harness/src/bin/childstub.rs self-report",
        "Lib/Spawn.v models descriptors as tagged atoms (fresh descriptors distinct from open ones; 0,1,2 open; caller files >= 3) and Rust's drop order; the kernel model of descriptor tables is validated against the logged runs, not proved",
        "tools/e2.py: mapping of real descriptor numbers to atoms, removal of std's debug-build fcntl(F_GETFD)-before-close checks",
    ]
    pr = C.props_check(pid, DEPS)
    chk.obligations(pr)
    ok, log = C.build_harness()
    if not ok:
        chk.tie_broken("harness does not build against /repo: " + log[-800:])
        return
    scns = explicit if explicit is not None else scenarios_for(pid, tier, r)
    e2.run_scenarios(scns, pid)
    ndiv = conformance(chk, scns, pid.lower())
    for s in scns:
        if s.get("timed_out") or s.get("rc") != 0:
            continue
        judge(pid, s, chk)
    divs = [s for s in scns if s.get("div")]
    if divs:
        chk.tie_broken("%s (%d of %d scenarios diverge; first %s)\n%s" % (divs[0]["div"], len(divs), len(scns), divs[0]["id"], "\n".join(divs[0]["spec"])))
    chk.cov["evaluations"] = len(scns)
    chk.cov["traces_validated_against_impl"] = len(scns) - ndiv
    chk.cov["distinct_nontrivial"] = len(set("\n".join(s["spec"]) for s in scns if any(s["cfg"][st] != "none" for st in STREAMS) or s["fault"]))
    chk.cov["rule"] = ("scenario = (redirection kind per stream out of none/pipe/merge/file/shared Rc file, options, at most one injected "
                       "failure (k-th pipe, k-th fcntl, fork, child-side dup2/chdir/sigmask/signal/setuid/setgid/setpgid/exec), "
                       "detached on/off, signal mask of the spawning thread); non-trivial = some redirection or a fault; distinct by text")
    chk.cov["samples"] = [{"id": s["id"], "spec": s["spec"], "result": result_of(s)} for s in scns[:3]]
    kinds = {}
    for s in scns:
        k = s["fault"][0] if s["fault"] else ("exec-fails" if s["exec_fail"] else "no-fault")
        kinds[k] = kinds.get(k, 0) + 1
    chk.cov["input_distribution"] = {"by_fault_kind": kinds, "results": {}}
    for s in scns:
        rr = (result_of(s) or "?").split(":")[0]
        chk.cov["input_distribution"]["results"][rr] = chk.cov["input_distribution"]["results"].get(rr, 0) + 1


def replay(chk, path, pid):
    spec = [l.rstrip("\n") for l in open(path, encoding="utf-8") if l.strip() and not l.startswith("#")]
    cfg = {"stdin": "none", "stdout": "none", "stderr": "none"}
    fault = None
    exec_fail = False
    for l in spec:
        k, _, v = l.partition(" ")
        if k in STREAMS:
            if v.startswith("file:"):
                cfg[k] = "file%d" % STREAMS.index(k)
            elif v.startswith("rcfile:"):
                cfg[k] = "rc" + v.split(":")[1]
            else:
                cfg[k] = v
        elif k == "fault":
            p = v.split()
            fault = (p[0], int(p[1]), int(p[2]), p[3] == "child")
        elif k == "detached":
            cfg["detached"] = True
        elif k == "cwd":
            cfg["cwd"] = True
        elif k in ("setuid", "setgid"):
            cfg[k] = True
        elif k == "setpgid":
            cfg["setpgid"] = True
        elif k == "argv" and "nonexistent" in bytes.fromhex(v.split(",")[0]).decode("latin1") if v.split(",")[0] != "STUB" else False:
            exec_fail = True
    s = {"id": "replay", "cfg": cfg, "fault": fault, "exec_fail": exec_fail, "spec": spec,
         "files": {"in0.txt": b"input-file\n", "shared0.txt": b"", "shared1.txt": b"", "shared2.txt": b""}, "mask": None, "sigpipe": None}
    run(chk, "quick", pid, explicit=[s])
