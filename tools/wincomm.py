"""The cfg(windows) thread-based communicator (communicate.rs `mod raw`, cut out of /repo's source by harness/build.rs and
compiled on Linux as it stands) against Lib/WinComm.v.

The driver (harness/src/bin/windrive.rs) runs RawCommunicator on real pipes and plays the child itself between reads,
so the child is quiescent during a read; the helper threads are given time to settle.  What remains free is the order
in which the receiving thread meets the helpers that hold a message; Kernel/WinSim.v enumerates every such order
(each path is a sequence of wstep transitions of the model), and the real sequence of read() results must be one of
the enumerated sequences.  The monitors restate C01-C04 on the real runs: every read returns, nothing is lost,
duplicated, reordered or moved between streams across any history of limited / timed-out reads, the limit holds, no
timeout without a deadline, absent streams are reported absent."""
import os
import tempfile
import shutil
from concurrent.futures import ThreadPoolExecutor

import common as C
import execprops as X

WINDRIVE = os.path.join(C.BIN, "windrive")
TMO = 250          # ms: the deadline given to reads that may find nothing ready


def gen(r, n):
    out = []
    for i in range(n):
        pi, po, pe = r.chance(1, 2), r.chance(4, 5), r.chance(1, 2)
        if not (pi or po or pe):
            po = True
        # an input that fits the one-page stdin pipe is written at once; a larger one is only paired with a child that
        # never reads (how a partly drained pipe is refilled depends on the kernel's page-granular buffers, which K does
        # not model)
        big = pi and r.chance(1, 6)
        inp = X.rand_bytes(r, r.choice([5000, 9000]) if big else r.choice([0, 1, 5, 300, 4096]), 0, 255) if pi else b""
        steps = []           # ('w', 'out'|'err', bytes) ('c', end) ('r', n) ('read', limit|None, deadline bool)
        closed = {"out": not po, "err": not pe, "in": not pi}
        nphase = r.choice([1, 2, 3, 4])
        for ph in range(nphase):
            for _ in range(r.below(4)):
                k = r.choice(["wo", "wo", "we", "r", "cin", "cout", "cerr"])
                if k == "wo" and not closed["out"]:
                    steps.append(("w", "out", X.rand_bytes(r, r.choice([1, 2, 7, 100, 4000]), 0, 255)))
                elif k == "we" and not closed["err"]:
                    steps.append(("w", "err", X.rand_bytes(r, r.choice([1, 3, 50, 3000]), 0, 255)))
                elif k == "r" and not closed["in"] and not big:
                    steps.append(("r", r.choice([1, 100, 4096, 10000])))
                elif k == "cin" and not closed["in"] and r.chance(1, 3):
                    steps.append(("c", "in"))
                    closed["in"] = True
                elif k == "cout" and not closed["out"] and r.chance(1, 3):
                    steps.append(("c", "out"))
                    closed["out"] = True
                elif k == "cerr" and not closed["err"] and r.chance(1, 3):
                    steps.append(("c", "err"))
                    closed["err"] = True
            lim = r.choice([None, None, 1, 2, 5, 64, 4095, 4096, 4097, 10000])
            steps.append(("read", lim, True))
        # the child exits: every end closes; the exchange is read to the end without a deadline
        for e in ("in", "out", "err"):
            if not closed[e]:
                steps.append(("r", 100000)) if e == "in" and not big and r.chance(1, 2) else None
                steps.append(("c", e))
        steps = [s for s in steps if s is not None]
        steps.append(("read", None, True))
        steps.append(("read", r.choice([None, 7]), False))
        steps.append(("read", None, False))
        out.append({"id": "win-%d" % i, "pi": pi, "po": po, "pe": pe, "input": inp, "steps": steps})
    return out


def scn_text(t, scale=1):
    ln = ["cfg %d %d %d %s" % (t["pi"], t["po"], t["pe"], t["input"].hex() or "-"), "settle %d" % (15 * scale)]
    for s in t["steps"]:
        if s[0] == "w":
            ln.append("w %s %s" % (s[1], s[2].hex()))
            ln.append("settle %d" % (4 * scale))
        elif s[0] == "c":
            ln.append("c %s" % s[1])
            ln.append("settle %d" % (4 * scale))
        elif s[0] == "r":
            ln.append("settle %d" % (8 * scale))
            ln.append("r %d" % s[1])
        else:
            ln.append("settle %d" % (25 * scale))
            ln.append("read %s %s" % ("-" if s[1] is None else s[1], TMO * (2 if scale > 1 else 1) if s[2] else "-"))
    return "\n".join(ln) + "\n"


def model_line(t):
    eu = X.eu
    prog, phases, pending = [], [], 0
    for s in t["steps"]:
        if s[0] == "w":
            prog.append("w:%s:%s" % ("o" if s[1] == "out" else "e", eu(s[2])))
            pending += 1
        elif s[0] == "c":
            prog.append("c:%s" % {"out": "o", "err": "e", "in": "i"}[s[1]])
            pending += 1
        elif s[0] == "r":
            prog.append("r:%d" % s[1])
            pending += 1
        else:
            if pending:
                phases.append("c%d" % pending)
                pending = 0
            phases.append("r%s:%d" % ("-" if s[1] is None else s[1], 1 if s[2] else 0))
    return "winc %d %d %d %s %s %s" % (t["pi"], t["po"], t["pe"], eu(t["input"]), ";".join(prog) if prog else "none", ";".join(phases))


def run_real(tpls, scale=1, workers=16):
    d = tempfile.mkdtemp(prefix="win-", dir=C.BUILD)

    def one(t):
        p = os.path.join(d, t["id"] + ".scn")
        with open(p, "w") as f:
            f.write(scn_text(t, scale))
        rc, out, err = C.run([WINDRIVE, p], timeout=40 * scale)
        return rc, out, err
    try:
        with ThreadPoolExecutor(max_workers=workers) as ex:
            return list(ex.map(one, tpls))
    finally:
        shutil.rmtree(d, ignore_errors=True)


def parse_real(out):
    reads, got, eof = [], b"", False
    for ln in out.splitlines():
        p = ln.split()
        if not p:
            continue
        if p[0] == "read":
            if p[1] == "panic":
                reads.append(("panic", None, None))
            else:
                kv = dict(x.split("=", 1) for x in p[2:])
                f = lambda h: None if h == "none" else (b"" if h == "-" else bytes.fromhex(h))
                reads.append((p[1], f(kv["out"]), f(kv["err"])))
        elif p[0] == "got":
            got += b"" if p[1] == "-" else bytes.fromhex(p[1])
        elif p[0] == "got_eof":
            eof = True
    return reads, got, eof


def show_reads(reads):
    f = lambda b: "none" if b is None else C.enc_units(list(b))
    return ",".join("%s:%s:%s" % (k.replace("err:", "err:"), f(o), f(e)) if k != "panic" else "panic" for k, o, e in reads)


def monitors(pid, t, reads, got, eof, rc):
    bad = []
    wrote = {"out": b"", "err": b""}
    for s in t["steps"]:
        if s[0] == "w":
            wrote[s[1]] += s[2]
    nreads = sum(1 for s in t["steps"] if s[0] == "read")
    if pid == "C01":
        if rc == 124 or len(reads) < nreads:
            bad.append("a read() of the thread-based communicator never returned (%d of %d reads reported)" % (len(reads), nreads))
        if any(k == "panic" for k, _, _ in reads):
            bad.append("a read() of the thread-based communicator panicked instead of returning")
    if rc != 0 or len(reads) < nreads or any(k == "panic" for k, _, _ in reads):
        return bad
    outs = b"".join(o or b"" for _, o, _ in reads)
    errs = b"".join(e or b"" for _, _, e in reads)
    if pid == "C02":
        if t["po"] and outs != wrote["out"]:
            bad.append("thread variant: stdout returned across the reads (%d bytes) is not what the child wrote (%d bytes)" % (len(outs), len(wrote["out"])))
        if t["pe"] and errs != wrote["err"]:
            bad.append("thread variant: stderr returned across the reads (%d bytes) is not what the child wrote (%d bytes)" % (len(errs), len(wrote["err"])))
        for k, o, e in reads:
            if (o is not None) != t["po"] or (e is not None) != t["pe"]:
                bad.append("thread variant: Option-ness of a result does not mirror the piped streams")
                break
        if t["pi"] and not t["input"].startswith(got):
            bad.append("thread variant: the child received bytes that are not a prefix of the input")
    if pid == "C03":
        for (k, o, e), s in zip(reads, [s for s in t["steps"] if s[0] == "read"]):
            if s[1] is not None and len(o or b"") + len(e or b"") > s[1]:
                bad.append("thread variant: a read with size limit %d returned %d bytes" % (s[1], len(o or b"") + len(e or b"")))
        if (t["po"] and outs != wrote["out"]) or (t["pe"] and errs != wrote["err"]):
            bad.append("thread variant: the pieces returned by successive limited reads do not add up to what the child wrote")
    if pid == "C04":
        for (k, o, e), s in zip(reads, [s for s in t["steps"] if s[0] == "read"]):
            if k == "timedout" and not s[2]:
                bad.append("thread variant: a read without a time limit reported a timeout")
        if (t["po"] and outs != wrote["out"]) or (t["pe"] and errs != wrote["err"]):
            bad.append("thread variant: bytes were lost or repeated across timed-out and resumed reads")
    return bad


def run_part(chk, pid, tier, seed_mix=0):
    """adds the thread-variant scenarios to the check of pid (C01..C04)"""
    if not os.path.exists(WINDRIVE):
        chk.tie_broken("windrive is not built")
        return
    r = C.Rng(chk.seed * 2654435761 + 77 + seed_mix)
    tpls = gen(r, 96 if tier == "quick" else 800)
    probe = C.run([WINDRIVE, "/dev/null"], timeout=20)
    real = run_real(tpls)
    if any("CUT-FAILED" in o for _, o, _ in real[:1]):
        chk.tie_broken("the cfg(windows) `mod raw` of src/communicate.rs could not be cut out (renamed or restructured)")
        return
    models = X.sppure([model_line(t) for t in tpls])
    # the correspondence rests on the helper threads having settled within a few milliseconds; a scenario that does not
    # match (or shows a monitor failure) is run again, alone and with five times the settling time, before it counts
    def matches(t, rco, ml):
        rc, out, err = rco
        reads, got, eof = parse_real(out)
        return rc == 0 and show_reads(reads) in set(a.split("|")[0] for a in ml.split(" || ")) and not monitors(pid, t, reads, got, eof, rc)
    redo = [i for i, (t, rco, ml) in enumerate(zip(tpls, real, models)) if not matches(t, rco, ml)]
    if redo:
        again = run_real([tpls[i] for i in redo], scale=5, workers=4)
        for i, rco in zip(redo, again):
            real[i] = rco
        chk.note("thread variant: %d scenario(s) re-run with longer settling times" % len(redo))
    ndiv = 0
    first = None
    for t, (rc, out, err), ml in zip(tpls, real, models):
        reads, got, eof = parse_real(out)
        for m in monitors(pid, t, reads, got, eof, rc):
            chk.violation("%s: %s [%s in=%d out=%d err=%d, %d steps]" % (pid, m, t["id"], t["pi"], t["po"], t["pe"], len(t["steps"])), "wincomm\n" + scn_text(t))
        # (how many input bytes the child has received at a given moment depends on the page granularity of the kernel's
        #  pipe buffers, which K does not model: the result sequences of the reads are compared, the input by the monitors)
        mine = show_reads(reads)
        allowed = sorted(set(a.split("|")[0] for a in ml.split(" || ")))
        if mine not in allowed:
            # the end-of-file flag of the child and its received bytes depend on nothing but the path; compare reads first
            ndiv += 1
            if first is None:
                first = "E3w: the real thread-based communicator's result sequence is not among the %d the model allows [%s]: real %s ; model e.g. %s" % (
                    len(allowed), t["id"], mine[:300], allowed[0][:300])
    if ndiv:
        chk.tie_broken("%s (%d of %d scenarios)" % (first, ndiv, len(tpls)))
    chk.cov["evaluations"] = chk.cov.get("evaluations", 0) + len(tpls)
    chk.cov["traces_validated_against_impl"] = chk.cov.get("traces_validated_against_impl", 0) + len(tpls) - ndiv
    chk.cov["thread_variant_scenarios"] = len(tpls)
    chk.cov["trusted_base"] = chk.cov.get("trusted_base", []) + [
        "thread variant: harness/build.rs cut-out of the cfg(windows) `mod raw` (compiled on Linux as it stands: std threads, sync_channel, File), harness/src/bin/windrive.rs (real pipes of one page, the driver plays the child between reads, helpers given 4-25 ms to settle), Kernel/WinSim.v's exploration strategy (eager helpers, quiescent child, timeout only when nothing is ready)",
    ]


def replay(chk, text, pid):
    lines = text.splitlines()
    p = os.path.join(C.BUILD, "win-replay.scn")
    with open(p, "w") as f:
        f.write("\n".join(lines) + "\n")
    rc, out, err = C.run([WINDRIVE, p], timeout=40)
    reads, got, eof = parse_real(out)
    if rc != 0 or any(k == "panic" for k, _, _ in reads):
        chk.violation("%s: thread variant replay: rc=%s reads=%s" % (pid, rc, show_reads(reads)[:300]), "wincomm\n" + text)
    else:
        chk.note("thread variant replay: %s" % show_reads(reads)[:400])
